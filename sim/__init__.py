"""Deterministic simulation harness for spowtd (see /verif/DESIGN.md)."""
