"""ctypes binding to the LD_PRELOADed fault shim (fault layer C)."""

import ctypes
import os

KINDS = {"eio": 1, "enospc": 2, "short": 3, "kill_before": 4, "kill_after": 5, "kill_mid": 6}

_LIB = None
_CHECKED = False


def lib():
    global _LIB, _CHECKED
    if _CHECKED:
        return _LIB
    _CHECKED = True
    if not os.environ.get("VCHECK_SHIM"):
        return None
    try:
        handle = ctypes.CDLL(None)
        handle.vshim_present.restype = ctypes.c_int
        if handle.vshim_present() != 1:
            return None
        handle.vshim_arm.argtypes = [ctypes.c_char_p, ctypes.c_long, ctypes.c_int]
        handle.vshim_arm.restype = None
        handle.vshim_disarm.restype = None
        handle.vshim_count.restype = ctypes.c_long
        handle.vshim_fired.restype = ctypes.c_long
        handle.vshim_set_signal.argtypes = [ctypes.c_int]
        handle.vshim_set_signal.restype = None
        handle.vshim_sleep_virtual.argtypes = [ctypes.c_int, ctypes.c_long, ctypes.c_void_p]
        handle.vshim_sleep_virtual.restype = None
        handle.vshim_sleep_calls.restype = ctypes.c_long
        handle.vshim_sleep_seconds.restype = ctypes.c_double
        handle.vshim_log.argtypes = [ctypes.c_long, ctypes.c_char_p, ctypes.c_int]
        handle.vshim_log.restype = ctypes.c_int
        _LIB = handle
    except (OSError, AttributeError):
        _LIB = None
    return _LIB


def available():
    return lib() is not None


def arm(prefix, at=-1, kind=None, sig=None):
    lib().vshim_arm(prefix.encode(), -1 if at is None else at, KINDS.get(kind, 0))
    if sig is not None:
        lib().vshim_set_signal(int(sig))


def disarm():
    lib().vshim_disarm()


def count():
    return lib().vshim_count()


def fired():
    return lib().vshim_fired()


def call_log():
    """List of (call, file, size, offset): call in p(write) w(rite) s(ync)
    t(runcate) u(nlink) r(ename) c(opy: sendfile / copy_file_range); file in d(atabase) j(ournal) o(ther)."""
    out = []
    buf = ctypes.create_string_buffer(96)
    handle = lib()
    for i in range(min(handle.vshim_count(), 16384)):
        n = handle.vshim_log(i, buf, 96)
        if n < 0:
            break
        call, file, size, off = buf.value.decode().split()
        out.append((call, file, int(size), int(off)))
    return out


_HOOK_TYPE = ctypes.CFUNCTYPE(None, ctypes.c_long)
_HOOK_KEEPALIVE = []


def virtual_sleep(on, every=0, hook=None):
    """Serve C-level sleeps (usleep / nanosleep / sleep) from the simulated clock.
    `hook(count)` is called every `every` sleeps: the simulator's chance to let a
    lock-holding peer act while the step is waiting inside C code."""
    if not available():
        return
    if hook is not None:
        cb = _HOOK_TYPE(hook)
        _HOOK_KEEPALIVE[:] = [cb]
        lib().vshim_sleep_virtual(1 if on else 0, every, ctypes.cast(cb, ctypes.c_void_p))
    else:
        _HOOK_KEEPALIVE[:] = []
        lib().vshim_sleep_virtual(1 if on else 0, 0, None)


def sleep_stats():
    if not available():
        return 0, 0.0
    return lib().vshim_sleep_calls(), lib().vshim_sleep_seconds()
