"""Shared run infrastructure: seeds, worker pool, reports, evidence, replays.

Exit codes of a check: 0 = property held on everything explored (KNOWN-FINDING
lines allowed), 1 = at least one VIOLATION not listed in known_findings.json,
2 = harness error (never reported as 0 and never as a VIOLATION).
"""

import collections
import concurrent.futures
import faulthandler
import hashlib
import json
import multiprocessing
import os
import shutil
import sys
import tempfile
import time
import traceback

from . import env

DEFAULT_SEED = 20260926


def base_seed():
    try:
        return int(os.environ.get("VERIF_SEED", DEFAULT_SEED))
    except ValueError:
        return DEFAULT_SEED


def derive_seed(base, *labels):
    """seed_i = H(base, labels): independent of worker count and order."""
    h = hashlib.sha256(("%d|" % base + "|".join(str(x) for x in labels)).encode()).digest()
    return int.from_bytes(h[:8], "big")


def digest(obj):
    return hashlib.sha1(json.dumps(obj, sort_keys=True, default=str).encode()).hexdigest()[:16]


def n_workers():
    try:
        w = int(os.environ.get("VERIF_WORKERS", "0"))
    except ValueError:
        w = 0
    if w <= 0:
        w = min(16, os.cpu_count() or 1)
    return w


# ---------------------------------------------------------------------------
# worker pool
# ---------------------------------------------------------------------------

_JOB_TIMEOUT = int(os.environ.get("VERIF_JOB_TIMEOUT", "1800"))


def _worker_entry(fn, job):
    # A hang is a harness error, never exit 0: dump tracebacks and die.
    faulthandler.dump_traceback_later(_JOB_TIMEOUT, exit=True)
    try:
        return ("ok", fn(job))
    except BaseException:  # pylint: disable=broad-except
        return ("error", traceback.format_exc())
    finally:
        faulthandler.cancel_dump_traceback_later()


class HarnessError(Exception):
    pass


def run_jobs(fn, jobs, workers=None, wall_budget=None):
    """Run fn(job) for each job on a fork pool; yield results in job order.

    With workers == 1 everything runs in this process (used by the determinism
    self-test and by replays).  When `wall_budget` seconds have passed, jobs
    not yet started are skipped (their slot yields None): the verdict stays
    sound, only the evidence counts shrink.
    """
    workers = workers or n_workers()
    jobs = list(jobs)
    t0 = time.time()
    if workers == 1:
        for job in jobs:
            if wall_budget is not None and time.time() - t0 > wall_budget:
                yield None
                continue
            status, value = _worker_entry(fn, job)
            if status != "ok":
                raise HarnessError(value)
            yield value
        return
    ctx = multiprocessing.get_context("fork")
    with concurrent.futures.ProcessPoolExecutor(max_workers=workers, mp_context=ctx) as pool:
        pending = collections.deque()
        it = iter(jobs)
        exhausted = False
        skipped = 0

        def submit_some():
            nonlocal exhausted, skipped
            while not exhausted and len(pending) < workers * 3:
                try:
                    job = next(it)
                except StopIteration:
                    exhausted = True
                    return
                if wall_budget is not None and time.time() - t0 > wall_budget:
                    pending.append(None)
                    skipped += 1
                else:
                    pending.append(pool.submit(_worker_entry, fn, job))

        submit_some()
        while pending:
            fut = pending.popleft()
            if fut is None:
                yield None
            else:
                try:
                    status, value = fut.result(timeout=_JOB_TIMEOUT + 60)
                except Exception as exc:  # BrokenProcessPool, timeout
                    raise HarnessError("worker died: %r" % (exc,)) from exc
                if status != "ok":
                    raise HarnessError(value)
                yield value
            submit_some()


# ---------------------------------------------------------------------------
# scratch
# ---------------------------------------------------------------------------

class Scratch:
    """Batch-level scratch root; runs make sub-directories and remove them."""

    def __init__(self):
        base = os.environ.get("VERIF_SCRATCH")
        if not base:
            base = "/dev/shm" if os.path.isdir("/dev/shm") and os.access("/dev/shm", os.W_OK) else tempfile.gettempdir()
        self.root = tempfile.mkdtemp(prefix="spowtd-verif-", dir=base)
        os.environ["VERIF_SCRATCH_ROOT"] = self.root

    def __enter__(self):
        return self

    def __exit__(self, *exc):
        shutil.rmtree(self.root, ignore_errors=True)
        os.environ.pop("VERIF_SCRATCH_ROOT", None)


class RunDir:
    """Per-run directory under the batch scratch root."""

    def __init__(self):
        root = os.environ.get("VERIF_SCRATCH_ROOT")
        self._own_root = None
        if not root:
            base = "/dev/shm" if os.path.isdir("/dev/shm") and os.access("/dev/shm", os.W_OK) else tempfile.gettempdir()
            root = self._own_root = tempfile.mkdtemp(prefix="spowtd-verif-", dir=base)
        self.path = tempfile.mkdtemp(prefix="run-", dir=root)

    def __enter__(self):
        return self.path

    def __exit__(self, *exc):
        shutil.rmtree(self.path, ignore_errors=True)
        if self._own_root:
            shutil.rmtree(self._own_root, ignore_errors=True)


# ---------------------------------------------------------------------------
# known findings
# ---------------------------------------------------------------------------

KNOWN_PATH = os.path.join(env.VERIF_ROOT, "known_findings.json")


def load_known():
    try:
        with open(KNOWN_PATH, encoding="utf-8") as f:
            return json.load(f)
    except FileNotFoundError:
        return []


def match_known(known, prop, signature):
    """Return the open entry whose signature matches on *every* field, else None.

    An entry's `input_class` must be among the violation's `input_classes`
    (computed by the check from the dataset, never from the exception text);
    every other field must be equal.
    """
    for entry in known:
        if entry.get("status") != "open" or entry.get("property") != prop:
            continue
        sig = entry.get("signature", {})
        if not sig:
            continue
        ok = True
        for k, v in sig.items():
            if k == "input_class":
                if v not in (signature.get("input_classes") or ()):
                    ok = False
            elif signature.get(k) != v:
                ok = False
        if ok:
            return entry
    return None


# ---------------------------------------------------------------------------
# report
# ---------------------------------------------------------------------------

REPLAY_DIR = os.environ.get("VERIF_REPLAY_DIR") or os.path.join(env.VERIF_ROOT, "out", "replays")
EVIDENCE_DIR = os.environ.get("VERIF_EVIDENCE_DIR") or os.path.join(env.VERIF_ROOT, "evidence")


def write_replay(prop, replay):
    os.makedirs(REPLAY_DIR, exist_ok=True)
    name = "%s-%s.json" % (prop, digest(replay))
    path = os.path.join(REPLAY_DIR, name)
    with open(path, "w", encoding="utf-8") as f:
        json.dump(replay, f, indent=1, sort_keys=True, default=str)
    return path


class Report:
    """Accumulates what one check invocation saw and turns it into output."""

    def __init__(self, prop, tier, level, seed):
        self.prop = prop
        self.tier = tier
        self.level = level
        self.seed = seed
        self.t0 = time.time()
        self.stats = collections.Counter()
        self.violations = []        # dicts with at least "property", "class", "signature", "replay"
        self.samples = []
        self.distinct = set()
        self.extra = {}
        self.known = load_known()
        self.known_hits = collections.OrderedDict()

    def absorb(self, result):
        """result: dict(stats=Counter-like, violations=[...], samples=[...], distinct=[...])"""
        if result is None:
            self.stats["jobs_skipped_wall_budget"] += 1
            return
        for k, v in result.get("stats", {}).items():
            self.stats[k] += v
        for v in result.get("violations", ()):
            self.violations.append(v)
        for s in result.get("samples", ()):
            if len(self.samples) < 12:
                self.samples.append(s)
        for d in result.get("distinct", ()):
            self.distinct.add(d)

    def finish(self, rule, evaluations_key, assumptions=(), coverage_extra=None, minimise=None):
        """Print verdict lines, write evidence, return the exit code."""
        mine = [v for v in self.violations if v["property"] == self.prop]
        others = [v for v in self.violations if v["property"] != self.prop]
        unknown = []
        for v in mine:
            entry = match_known(self.known, self.prop, v.get("signature", {}))
            if entry is not None:
                key = json.dumps(entry.get("signature"), sort_keys=True)
                self.known_hits.setdefault(key, [entry, 0])
                self.known_hits[key][1] += 1
            else:
                unknown.append(v)
        for key, (entry, count) in self.known_hits.items():
            print("KNOWN-FINDING: property=%s %s (met %d times in this run)" % (self.prop, entry.get("what"), count))
        # listed open findings are always announced, met or not
        for entry in self.known:
            if entry.get("status") == "open" and entry.get("property") == self.prop:
                key = json.dumps(entry.get("signature"), sort_keys=True)
                if key not in self.known_hits:
                    print("KNOWN-FINDING: property=%s %s (not met in this run)" % (self.prop, entry.get("what")))
        reported = {}
        for v in unknown:
            cls = v.get("class", "?")
            if cls in reported:
                reported[cls][1] += 1
                continue
            reported[cls] = [v, 1]
        n_reported = 0
        for cls, (v, count) in reported.items():
            if minimise is not None:
                try:
                    v = minimise(v)
                except Exception:  # pylint: disable=broad-except
                    traceback.print_exc()
            path = write_replay(self.prop, v["replay"])
            print("VIOLATION property=%s replay=%s" % (self.prop, path))
            print("  class=%s occurrences=%d detail=%s" % (cls, count, json.dumps(v.get("detail", ""), default=str)[:600]))
            n_reported += 1
        others = [v for v in others if match_known(self.known, v["property"], v.get("signature", {})) is None]
        if others:
            by = collections.Counter(v["property"] for v in others)
            print("note: this run also met violations of other properties (reported by their own checks): %s" % dict(by))
        wall = time.time() - self.t0
        evaluations = int(self.stats.get(evaluations_key, 0))
        coverage = {
            "evaluations": evaluations,
            "distinct_nontrivial": len(self.distinct),
            "rule": rule,
            "samples": self.samples[:12],
            "counters": {k: self.stats[k] for k in sorted(self.stats)},
            "runs_per_hour": int(evaluations / wall * 3600) if wall > 0 else 0,
            "workers": n_workers(),
        }
        if coverage_extra:
            coverage.update(coverage_extra)
        evidence = {
            "property_id": self.prop,
            "tier": self.tier,
            "seed": self.seed,
            "level": self.level,
            "coverage": coverage,
            "assumptions": list(assumptions),
            "wall_s": round(wall, 2),
            "violations": len(unknown),
            "known_findings_met": {json.loads(k).get("input_class", k): c for k, (_e, c) in self.known_hits.items()},
        }
        os.makedirs(EVIDENCE_DIR, exist_ok=True)
        with open(os.path.join(EVIDENCE_DIR, "%s.json" % self.prop), "w", encoding="utf-8") as f:
            json.dump(evidence, f, indent=1, sort_keys=True, default=str)
        print("%s %s: evaluations=%d distinct_nontrivial=%d violations=%d wall=%.1fs" % (
            self.prop, self.tier, evaluations, len(self.distinct), len(unknown), wall))
        sys.stdout.flush()
        return 1 if unknown else 0
