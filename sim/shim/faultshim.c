/* Fault layer C: an LD_PRELOAD shim over the write-class libc calls SQLite
 * makes on the dataset file and its rollback journal.
 *
 * Inert until armed.  When armed with a path prefix (the run's scratch
 * directory), every matching call is counted and logged; at call number `at`
 * the shim does one of:
 *   1 EIO          return -1 / errno = EIO without performing the call
 *   2 ENOSPC       return -1 / errno = ENOSPC without performing the call
 *   3 SHORT        perform a short write (half the bytes) -- legal, must be tolerated
 *   4 KILL_BEFORE  raise(SIGKILL) before performing the call
 *   5 KILL_AFTER   perform the call, then raise(SIGKILL)
 *   6 KILL_MID     perform half of a multi-page write / file copy, then raise(SIGKILL)
 *                  (a fatal signal can cut a large write or sendfile short; single
 *                  pages are written whole, so small writes are left alone)
 * at < 0 means count only.  The shim calls the real function in every other
 * case; it never alters data.
 */
#define _GNU_SOURCE
#include <dlfcn.h>
#include <errno.h>
#include <signal.h>
#include <stdio.h>
#include <string.h>
#include <sys/types.h>
#include <sys/sendfile.h>
#include <sys/uio.h>
#include <time.h>
#include <unistd.h>

#define LOG_MAX 16384

struct entry { char call; char file; long size; long off; };

static int armed = 0;
static char prefix[512];
static size_t prefix_len = 0;
static long target = -1;
static int kind = 0;
static long count = 0;
static long fired = -1;
static int kill_signal = SIGKILL;
static struct entry log_buf[LOG_MAX];

static ssize_t (*real_pwrite)(int, const void *, size_t, off_t);
static ssize_t (*real_pwrite64)(int, const void *, size_t, off64_t);
static ssize_t (*real_write)(int, const void *, size_t);
static int (*real_fsync)(int);
static int (*real_fdatasync)(int);
static int (*real_ftruncate)(int, off_t);
static int (*real_ftruncate64)(int, off64_t);
static int (*real_unlink)(const char *);
static int (*real_rename)(const char *, const char *);
static int (*real_renameat)(int, const char *, int, const char *);
static int (*real_truncate)(const char *, off_t);
static int (*real_truncate64)(const char *, off64_t);
static ssize_t (*real_sendfile)(int, int, off_t *, size_t);
static ssize_t (*real_sendfile64)(int, int, off64_t *, size_t);
static ssize_t (*real_copy_file_range)(int, off64_t *, int, off64_t *, size_t, unsigned int);

#define RESOLVE(name) do { if (!real_##name) real_##name = dlsym(RTLD_NEXT, #name); } while (0)

void vshim_arm(const char *p, long at, int k)
{
    strncpy(prefix, p, sizeof(prefix) - 1);
    prefix[sizeof(prefix) - 1] = 0;
    prefix_len = strlen(prefix);
    target = at;
    kind = k;
    count = 0;
    fired = -1;
    armed = 1;
}

void vshim_disarm(void) { armed = 0; kill_signal = SIGKILL; }
void vshim_set_signal(int sig) { kill_signal = sig; }
long vshim_count(void) { return count; }
long vshim_fired(void) { return fired; }
int vshim_present(void) { return 1; }

int vshim_log(long i, char *buf, int n)
{
    if (i < 0 || i >= count || i >= LOG_MAX) return -1;
    return snprintf(buf, n, "%c %c %ld %ld", log_buf[i].call, log_buf[i].file,
                    log_buf[i].size, log_buf[i].off);
}

static char classify_path(const char *path)
{
    size_t n = strlen(path);
    if (n >= 8 && strcmp(path + n - 8, "-journal") == 0) return 'j';
    if (n >= 4 && strcmp(path + n - 4, "-wal") == 0) return 'w';
    if (n >= 7 && strcmp(path + n - 7, ".sqlite") == 0) return 'd';
    return 'o';
}

/* returns 0 if the path is not under the armed prefix, else file class */
static char match_path(const char *path)
{
    if (!armed || prefix_len == 0) return 0;
    if (strncmp(path, prefix, prefix_len) != 0) return 0;
    return classify_path(path);
}

static char match_fd(int fd)
{
    char link[64], path[1024];
    ssize_t n;
    if (!armed) return 0;
    snprintf(link, sizeof(link), "/proc/self/fd/%d", fd);
    n = readlink(link, path, sizeof(path) - 1);
    if (n <= 0) return 0;
    path[n] = 0;
    return match_path(path);
}

/* decide what to do with this (matching) call.
 * returns 0 = perform normally, 1 = fail EIO, 2 = fail ENOSPC, 3 = short,
 * 4 = kill before, 5 = kill after */
static int decide(char call, char file, long size, long off)
{
    long idx = count++;
    if (idx < LOG_MAX) {
        log_buf[idx].call = call;
        log_buf[idx].file = file;
        log_buf[idx].size = size;
        log_buf[idx].off = off;
    }
    if (target >= 0 && idx == target && fired < 0) {
        if (kind == 3 && !(call == 'p' || call == 'w' || call == 'c')) return 0; /* short: writes only */
        if (kind == 3 && size < 2) return 0;
        if (kind == 6 && !((call == 'p' || call == 'w') && size > 4096) && call != 'c') return 0;
        fired = idx;
        return kind;
    }
    return 0;
}

/* SIGKILL never returns.  SIGTERM / SIGINT / SIGHUP normally do not either, but a
 * tree that installs a handler survives: then the interrupted call goes on as
 * if nothing had happened (that is what a handled signal is). */
static int die(void)
{
    raise(kill_signal);
    if (kill_signal == SIGKILL)
        for (;;) pause();
    return 0;
}

#define WRITE_BODY(CALLCH, REALCALL_FULL, REALCALL_HALF, OFF)                 \
    char f = match_fd(fd);                                                     \
    if (!f) return REALCALL_FULL;                                              \
    switch (decide(CALLCH, f, (long)n, (long)(OFF))) {                         \
    case 1: errno = EIO; return -1;                                            \
    case 2: errno = ENOSPC; return -1;                                         \
    case 3: return REALCALL_HALF;                                              \
    case 4: die(); return REALCALL_FULL;                                       \
    case 5: { ssize_t r = REALCALL_FULL; die(); return r; }                    \
    case 6: { ssize_t r = REALCALL_HALF; die(); return r; }                    \
    default: return REALCALL_FULL;                                             \
    }

ssize_t pwrite(int fd, const void *buf, size_t n, off_t off)
{
    RESOLVE(pwrite);
    WRITE_BODY('p', real_pwrite(fd, buf, n, off), real_pwrite(fd, buf, n / 2, off), off)
}

ssize_t pwrite64(int fd, const void *buf, size_t n, off64_t off)
{
    RESOLVE(pwrite64);
    WRITE_BODY('p', real_pwrite64(fd, buf, n, off), real_pwrite64(fd, buf, n / 2, off), off)
}

ssize_t write(int fd, const void *buf, size_t n)
{
    RESOLVE(write);
    WRITE_BODY('w', real_write(fd, buf, n), real_write(fd, buf, n / 2), -1)
}

#define INT_BODY(CALLCH, MATCH, REALCALL, SIZE)                                \
    char f = MATCH;                                                            \
    if (!f) return REALCALL;                                                   \
    switch (decide(CALLCH, f, (long)(SIZE), -1)) {                             \
    case 1: errno = EIO; return -1;                                            \
    case 2: errno = ENOSPC; return -1;                                         \
    case 4: die(); return REALCALL;                                            \
    case 5: { int r = REALCALL; die(); return r; }                             \
    default: return REALCALL;                                                  \
    }

int fsync(int fd)
{
    RESOLVE(fsync);
    INT_BODY('s', match_fd(fd), real_fsync(fd), 0)
}

int fdatasync(int fd)
{
    RESOLVE(fdatasync);
    INT_BODY('s', match_fd(fd), real_fdatasync(fd), 0)
}

int ftruncate(int fd, off_t len)
{
    RESOLVE(ftruncate);
    INT_BODY('t', match_fd(fd), real_ftruncate(fd, len), len)
}

int ftruncate64(int fd, off64_t len)
{
    RESOLVE(ftruncate64);
    INT_BODY('t', match_fd(fd), real_ftruncate64(fd, len), len)
}

int unlink(const char *path)
{
    RESOLVE(unlink);
    INT_BODY('u', match_path(path), real_unlink(path), 0)
}

int rename(const char *from, const char *to)
{
    RESOLVE(rename);
    INT_BODY('r', match_path(to), real_rename(from, to), 0)
}

int renameat(int fd1, const char *from, int fd2, const char *to)
{
    RESOLVE(renameat);
    INT_BODY('r', match_path(to), real_renameat(fd1, from, fd2, to), 0)
}

int truncate(const char *path, off_t len)
{
    RESOLVE(truncate);
    INT_BODY('t', match_path(path), real_truncate(path, len), len)
}

int truncate64(const char *path, off64_t len)
{
    RESOLVE(truncate64);
    INT_BODY('t', match_path(path), real_truncate64(path, len), len)
}

/* whole-file copies (shutil.copyfile uses sendfile / copy_file_range);
 * the requested count is usually far larger than the file, so a partial copy
 * stops after a few pages */
#define COPY_PART(n) ((n) > 12288 ? 12288 : ((n) / 2 ? (n) / 2 : 1))
ssize_t sendfile(int fd, int in_fd, off_t *off, size_t n)
{
    RESOLVE(sendfile);
    WRITE_BODY('c', real_sendfile(fd, in_fd, off, n), real_sendfile(fd, in_fd, off, COPY_PART(n)), -1)
}

ssize_t sendfile64(int fd, int in_fd, off64_t *off, size_t n)
{
    RESOLVE(sendfile64);
    WRITE_BODY('c', real_sendfile64(fd, in_fd, off, n), real_sendfile64(fd, in_fd, off, COPY_PART(n)), -1)
}

ssize_t copy_file_range(int in_fd, off64_t *in_off, int fd, off64_t *out_off, size_t n, unsigned int flags)
{
    RESOLVE(copy_file_range);
    WRITE_BODY('c', real_copy_file_range(in_fd, in_off, fd, out_off, n, flags),
               real_copy_file_range(in_fd, in_off, fd, out_off, COPY_PART(n), flags), -1)
}

/* ---- simulated sleeping ---------------------------------------------------
 * SQLite (sqlite3_sleep: backup retries, busy handlers) and C extensions sleep
 * through usleep / nanosleep / sleep.  While a step runs under simulation these
 * return at once, are counted, and every `sleep_hook_every` calls a hook
 * registered by the harness is invoked: that is how a lock-holding peer gets a
 * chance to act ("the other process finished") while the step is waiting inside
 * C code, so that a step which waits for a lock makes progress in bounded
 * simulated time instead of deadlocking the single-threaded simulation. */
static int sleep_virtual = 0;
static long sleep_calls = 0;
static double sleep_seconds = 0.0;
static long sleep_hook_every = 0;
static void (*sleep_hook)(long) = 0;
static int (*real_usleep)(useconds_t);
static int (*real_nanosleep)(const struct timespec *, struct timespec *);
static unsigned int (*real_sleep)(unsigned int);

void vshim_sleep_virtual(int on, long every, void (*hook)(long))
{
    sleep_virtual = on;
    sleep_hook_every = every;
    sleep_hook = hook;
    if (on) { sleep_calls = 0; sleep_seconds = 0.0; }
}
long vshim_sleep_calls(void) { return sleep_calls; }
double vshim_sleep_seconds(void) { return sleep_seconds; }

static void slept(double seconds)
{
    sleep_calls++;
    sleep_seconds += seconds;
    if (sleep_hook && sleep_hook_every > 0 && sleep_calls % sleep_hook_every == 0)
        sleep_hook(sleep_calls);
}

int usleep(useconds_t usec)
{
    if (sleep_virtual) { slept(usec / 1e6); return 0; }
    RESOLVE(usleep);
    return real_usleep(usec);
}

int nanosleep(const struct timespec *req, struct timespec *rem)
{
    if (sleep_virtual) {
        slept(req ? req->tv_sec + req->tv_nsec / 1e9 : 0.0);
        if (rem) { rem->tv_sec = 0; rem->tv_nsec = 0; }
        return 0;
    }
    RESOLVE(nanosleep);
    return real_nanosleep(req, rem);
}

unsigned int sleep(unsigned int seconds)
{
    if (sleep_virtual) { slept((double)seconds); return 0; }
    RESOLVE(sleep);
    return real_sleep(seconds);
}
