"""The SQLite seam.

`sqlite3.connect` is replaced (before spowtd is imported, though spowtd looks
the attribute up at call time anyway) by a factory that returns *real*
`sqlite3.Connection` / `sqlite3.Cursor` subclasses.  They call straight
through to the C library; what they add is

* a counter over the statement-level API calls a step makes
  (`execute`, `executemany`, `executescript`, `commit`) and the ability to
  raise at call number k instead of running it (fault layer A);
* SQLite's own progress handler, used to abort *inside* a statement at VM
  callback number k (fault layer B);
* a tuning knob (`PRAGMA cache_size`) that only changes *when* SQLite writes;
* `timeout=0`, removing the only real-time wait in the system;
* a registry of live connections so that "process exit" can be emulated after
  an in-process step (close => implicit rollback, lock release).

No statement is rewritten, reordered or skipped (except the one a fault plan
fails on purpose).
"""

import sqlite3
import weakref

REAL_CONNECT = sqlite3.connect

_LIVE = weakref.WeakSet()


class Plan:
    """What the seam should do during one step.  One instance per step."""

    __slots__ = (
        "a_at", "a_exc", "b_at", "b_every", "cache_pages", "record_sql",
        "calls", "callbacks", "fired", "sql_log", "connections", "commits_seen",
        "journal_mode", "on_call", "r_at", "rows",
    )

    def __init__(self, a_at=None, a_exc="OperationalError", b_at=None, b_every=None,
                 cache_pages=None, record_sql=False, journal_mode=None):
        self.a_at = a_at              # fail API call number a_at (0-based)
        self.a_exc = a_exc
        self.b_at = b_at              # interrupt at progress callback number b_at
        self.b_every = b_every        # VM instructions between callbacks
        self.cache_pages = cache_pages
        self.journal_mode = journal_mode   # selftest only: force a journal mode
        self.record_sql = record_sql
        self.calls = 0
        self.callbacks = 0
        self.fired = None             # ('A', k, what) or ('B', k)
        self.sql_log = []             # (kind, first token(s) of sql)
        self.connections = 0
        self.commits_seen = 0
        self.on_call = None           # optional hook(kind, sql, index)
        self.r_at = None              # fail the read of result row number r_at (0-based, over the whole step)
        self.rows = 0


_PLAN = Plan()


def set_plan(plan):
    global _PLAN
    _PLAN = plan if plan is not None else Plan()
    return _PLAN


def current_plan():
    return _PLAN


_EXC = {
    "OperationalError": lambda: sqlite3.OperationalError("injected: statement failed"),
    "IntegrityError": lambda: sqlite3.IntegrityError("injected: constraint failed"),
    "DatabaseError": lambda: sqlite3.DatabaseError("injected: database error"),
    "MemoryError": lambda: MemoryError("injected"),
    "KeyboardInterrupt": lambda: KeyboardInterrupt(),
}


def _summarise(sql):
    if not isinstance(sql, str):
        return "?"
    words = sql.split()
    return " ".join(words[:3])


def _gate(kind, sql):
    """Count one API call; raise if the plan says this is the one to fail."""
    plan = _PLAN
    index = plan.calls
    plan.calls += 1
    if plan.record_sql:
        plan.sql_log.append((kind, _summarise(sql)))
    if plan.on_call is not None:
        plan.on_call(kind, sql, index)
    if plan.a_at is not None and index == plan.a_at and plan.fired is None:
        plan.fired = ("A", index, kind + ":" + _summarise(sql))
        raise _EXC[plan.a_exc]()


def _row_gate(n_rows=1):
    """Count result rows handed to the step; fail the read of row r_at."""
    plan = _PLAN
    first = plan.rows
    plan.rows += n_rows
    if plan.r_at is not None and plan.fired is None and first <= plan.r_at < first + n_rows:
        plan.fired = ("R", plan.r_at)
        raise sqlite3.OperationalError("disk I/O error (injected: reading a result row failed)")


class SimCursor(sqlite3.Cursor):
    # result rows: every way the step can pull them is counted, and the read of row k can fail
    def __next__(self):
        row = super().__next__()
        _row_gate(1)
        return row

    def fetchone(self):
        row = super().fetchone()
        if row is not None:
            _row_gate(1)
        return row

    def fetchmany(self, *args, **kwargs):
        rows = super().fetchmany(*args, **kwargs)
        if rows:
            _row_gate(len(rows))
        return rows

    def fetchall(self):
        rows = super().fetchall()
        if rows:
            _row_gate(len(rows))
        return rows

    def execute(self, sql, *args):
        _gate("execute", sql)
        return super().execute(sql, *args)

    def executemany(self, sql, *args):
        _gate("executemany", sql)
        return super().executemany(sql, *args)

    def executescript(self, sql):
        _gate("executescript", sql)
        return super().executescript(sql)


class SimConnection(sqlite3.Connection):
    def cursor(self, factory=SimCursor):
        return super().cursor(factory)

    # Connection.execute* are shortcuts that create a cursor through
    # self.cursor() and call its method: the gate is passed there, once.

    def commit(self):
        _gate("commit", "COMMIT")
        _PLAN.commits_seen += 1
        return super().commit()

    def __exit__(self, exc_type, exc, tb):
        # `with connection:` commits from C without going through self.commit();
        # make that commit a countable (and failable) call as well.
        if exc_type is None:
            _gate("commit", "COMMIT (context manager)")
            _PLAN.commits_seen += 1
        return super().__exit__(exc_type, exc, tb)


def _progress():
    plan = _PLAN
    index = plan.callbacks
    plan.callbacks += 1
    if plan.b_at is not None and index == plan.b_at and plan.fired is None:
        plan.fired = ("B", index)
        return 1
    return 0


def sim_connect(database, *args, **kwargs):
    """Drop-in for sqlite3.connect used by the code under simulation."""
    plan = _PLAN
    kwargs.setdefault("timeout", 0)
    kwargs["factory"] = SimConnection
    connection = REAL_CONNECT(database, *args, **kwargs)
    _LIVE.add(connection)
    plan.connections += 1
    if plan.cache_pages is not None:
        sqlite3.Connection.execute(connection, "PRAGMA cache_size = %d" % plan.cache_pages)
    if plan.journal_mode is not None:
        sqlite3.Connection.execute(connection, "PRAGMA journal_mode = %s" % plan.journal_mode).fetchall()
    if plan.b_every is not None:
        connection.set_progress_handler(_progress, plan.b_every)
    return connection


def install():
    sqlite3.connect = sim_connect


def uninstall():
    sqlite3.connect = REAL_CONNECT


def process_exit():
    """Emulate interpreter exit for an in-process step.

    Every connection the step left open is closed: an open transaction is
    rolled back and locks are released, exactly as when the spowtd process
    ends.  Returns the number of connections that were still open.
    """
    n = 0
    for connection in list(_LIVE):
        try:
            connection.close()
            n += 1
        except Exception:  # pylint: disable=broad-except
            pass
        _LIVE.discard(connection)
    return n


def plain_connect(path, **kwargs):
    """A connection that is *not* under simulation (harness use)."""
    kwargs.setdefault("timeout", 0)
    return REAL_CONNECT(path, **kwargs)
