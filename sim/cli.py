"""Run one spowtd command in-process, exactly as bin/spowtd does.

`spowtd.user_interface.main(argv)` is the real entry point; bin/spowtd is
`sys.exit(main(sys.argv[1:]))`.  Here SystemExit and exceptions are mapped to
an outcome, stdout/stderr are captured, and process exit is emulated by closing
whatever connections the step left open.
"""

import gc
import io
import logging
import os
import sys
import time
import traceback

from . import env, sqlseam

_MAIN = None

# spowtd has no timers today; should a tree under test sleep (a retry loop, a
# back-off), the wait is taken from a simulated clock instead of the real one.
SIM_CLOCK = {"slept_s": 0.0, "sleeps": 0}
_REAL_SLEEP = time.sleep


def _sim_sleep(seconds):
    SIM_CLOCK["slept_s"] += max(0.0, float(seconds))
    SIM_CLOCK["sleeps"] += 1


def _main():
    global _MAIN
    if _MAIN is None:
        env.install_repo_on_path()
        env.install_numpy_shim()
        sqlseam.install()
        import spowtd.user_interface as ui  # pylint: disable=import-outside-toplevel

        _MAIN = ui.main
    return _MAIN


class Outcome:
    """Result of one command: exit status and, on failure, what raised where."""

    __slots__ = ("status", "exc_type", "exc_msg", "frame", "stdout", "frames")

    def __init__(self, status, exc_type=None, exc_msg=None, frame=None, stdout="", frames=()):
        self.status = status
        self.exc_type = exc_type
        self.exc_msg = exc_msg
        self.frame = frame          # innermost spowtd frame "module.function"
        self.stdout = stdout
        self.frames = frames        # all spowtd frames, outermost first

    @property
    def ok(self):
        return self.status == 0

    def brief(self):
        if self.ok:
            return "ok"
        return "%s@%s" % (self.exc_type, self.frame)

    def as_dict(self):
        return {"status": self.status, "exc_type": self.exc_type,
                "exc_msg": (self.exc_msg or "")[:200], "frame": self.frame}


def _spowtd_frames(tb):
    frames = []
    for fs in traceback.extract_tb(tb):
        fn = fs.filename
        marker = os.sep + "spowtd" + os.sep
        if marker in fn and (os.sep + "test" + os.sep) not in fn:
            mod = os.path.splitext(os.path.basename(fn))[0]
            frames.append("%s.%s" % (mod, fs.name))
    return frames


def run(argv, keep_stdout=False):
    """Run `spowtd <argv>`; never raises for anything the command does."""
    main = _main()
    old_out, old_err = sys.stdout, sys.stderr
    out = io.StringIO()
    sys.stdout = out
    sys.stderr = io.StringIO()
    status, exc_type, exc_msg, frame, frames = 0, None, None, None, ()
    logging.getLogger("spowtd").setLevel(logging.NOTSET)     # a new process starts with default levels
    time.sleep = _sim_sleep
    try:
        try:
            rv = main(list(argv))
            status = 0 if rv in (None, 0) else 1
        except SystemExit as exc:  # argparse errors, parser.exit()
            code = exc.code
            status = 0 if code in (None, 0) else (code if isinstance(code, int) else 1)
            if status != 0:
                exc_type, exc_msg, frame = "SystemExit", str(code), "argparse"
        except BaseException as exc:  # pylint: disable=broad-except
            status = 1
            exc_type = type(exc).__name__
            exc_msg = str(exc)
            frames = tuple(_spowtd_frames(exc.__traceback__))
            frame = frames[-1] if frames else "outside"
            # do not keep the traceback: it pins frames, which pin connections
            exc.__traceback__ = None
            del exc
    finally:
        sys.stdout, sys.stderr = old_out, old_err
        time.sleep = _REAL_SLEEP
    sqlseam.process_exit()
    pyplot = sys.modules.get("matplotlib.pyplot")
    if pyplot is not None:
        try:
            pyplot.close("all")          # a plot command leaves its figure open; the process would have exited
        except Exception:  # pylint: disable=broad-except
            pass
    if status != 0:
        gc.collect()        # drop file objects / frames a failed command left in cycles
    return Outcome(status, exc_type, exc_msg, frame, out.getvalue() if keep_stdout else "", frames)
