"""Workload generator: datasets, knobs.  Every choice comes from the run's PRNG.

A synthetic dataset is described by a small JSON-able *spec* (time step, list
of segments each giving explicit rain intensities and water-level increments,
gaps in the water-level record, trimming); `render` turns a spec into the three
text files `spowtd load` reads.  Keeping the spec explicit is what lets the
minimiser drop segments and gaps and lets a replay file be self-contained.
"""

import datetime
import math
import os

from . import env

# zones without daylight-saving transitions (a uniform local-time record cannot cross one),
# including offsets that are not whole hours
TIMEZONES = ("Africa/Lagos", "UTC", "Asia/Singapore", "America/Bogota", "Asia/Kolkata", "Asia/Kathmandu",
             "Pacific/Kiritimati")
T0 = datetime.datetime(2013, 3, 1, 0, 0, 0)
# record origins: ordinary; not on the hour; before 1970 (negative epochs); after 2038
T0_CHOICES = ("2013-03-01 00:00:00", "2013-03-01 00:00:00", "2013-03-01 00:00:00", "2021-07-15 00:07:00",
              "1999-12-31 23:30:00", "1968-05-02 06:00:00", "2041-01-01 12:00:00")


def spec_t0(spec):
    text = spec.get("t0")
    if not text:
        return T0
    return datetime.datetime.strptime(text, "%Y-%m-%d %H:%M:%S")


def _r3(x):
    return round(float(x), 3)


# ---------------------------------------------------------------------------
# segment templates.  A segment is {"kind", "rain": [...], "dz": [...]} with
# len(rain) == len(dz): rain[i] is the intensity over step i, dz[i] the change
# in water level over the same step.
# ---------------------------------------------------------------------------

def _heavy(rng, s0):
    c = rng.random()
    if c < 0.15:
        return _r3(s0 * 2)                      # repeated value: ties in totals
    if c < 0.21:
        return math.nextafter(_r3(s0), math.inf)  # one float above the nominal threshold: a storm step
    return _r3(s0 * rng.uniform(1.05, 4.0))


def _light(rng, s0):
    c = rng.random()
    if c < 0.25:
        return 0.0
    if c < 0.35:
        return _r3(s0)                          # exactly the nominal threshold: not a storm
    if c < 0.39:
        return math.nextafter(_r3(s0), 0.0)     # one float below it: not a storm either
    return _r3(s0 * rng.uniform(0.05, 0.95))


def _jump(rng, jd0):
    c = rng.random()
    if c < 0.15:
        return _r3(jd0 * 2)
    return _r3(jd0 * rng.uniform(1.05, 5.0))


def _flat(rng, jd0):
    c = rng.random()
    if c < 0.1:
        return _r3(jd0)                         # exactly the nominal threshold: not a jump
    return _r3(jd0 * rng.uniform(-0.3, 0.95))


def _runs(rng, total, run_lo, run_hi, lull_lo, lull_hi, start_on):
    """Boolean pattern of alternating runs / lulls of random lengths."""
    out = []
    on = start_on
    while len(out) < total:
        n = rng.randint(run_lo, run_hi) if on else rng.randint(lull_lo, lull_hi)
        out.extend([on] * n)
        on = not on
    return out[:total]


def seg_event(rng, s0, jd0, kind=None):
    """One rain event with its water-level response.

    kinds: simple, shifted, two_bursts_one_rise, one_burst_two_rises,
    contention (independent random run patterns for heavy rain and rising
    head: chains of alternately offset lulls), mystery (rise without rain),
    dud (heavy rain without rise).
    """
    if kind is None:
        kind = rng.choices(
            ["simple", "shifted", "two_bursts_one_rise", "one_burst_two_rises",
             "contention", "mystery", "dud"],
            weights=[4, 3, 2, 2, 6, 1, 1])[0]
    if kind == "simple":
        k = rng.randint(1, 4)
        heavy = [True] * k
        rising = [True] * k
    elif kind == "shifted":
        k = rng.randint(1, 4)
        sh = rng.choice([1, 1, 2])
        j = rng.randint(1, 4)
        heavy = [True] * k + [False] * max(0, sh + j - k)
        rising = [False] * sh + [True] * j
        n = max(len(heavy), len(rising))
        heavy += [False] * (n - len(heavy))
        rising += [False] * (n - len(rising))
        if k <= sh:   # no overlap at all: storm then rise, legit "unmatched" pair
            pass
    elif kind == "two_bursts_one_rise":
        a, b = rng.randint(1, 3), rng.randint(1, 3)
        heavy = [True] * a + [False] + [True] * b
        rising = [True] * (a + 1 + b)
    elif kind == "one_burst_two_rises":
        a, b = rng.randint(1, 3), rng.randint(1, 3)
        heavy = [True] * (a + 1 + b)
        rising = [True] * a + [False] + [True] * b
    elif kind == "contention":
        total = rng.randint(5, 22)
        heavy = _runs(rng, total, 1, 4, 1, 2, rng.random() < 0.5)
        rising = _runs(rng, total, 1, 4, 1, 2, rng.random() < 0.5)
    elif kind == "mystery":
        k = rng.randint(1, 3)
        heavy = [False] * k
        rising = [True] * k
    elif kind == "dud":
        k = rng.randint(1, 3)
        heavy = [True] * k
        rising = [False] * k
    else:
        raise ValueError(kind)
    rain = [_heavy(rng, s0) if h else (_light(rng, s0) if kind != "mystery" else 0.0) for h in heavy]
    dz = [_jump(rng, jd0) if r else _flat(rng, jd0) for r in rising]
    return {"kind": kind, "rain": rain, "dz": dz}


def seg_tail(rng, s0, jd0):
    """Drizzle after a storm (needed for any recession interval to exist)."""
    k = rng.randint(1, 3)
    return {"kind": "tail",
            "rain": [_r3(s0 * rng.uniform(0.02, 0.5)) for _ in range(k)],
            "dz": [_r3(jd0 * rng.uniform(-0.1, 0.4)) for _ in range(k)]}


def seg_dry(rng, jd0, length, z_now, z_base):
    """Rain-free recession toward z_base."""
    dz = []
    z = z_now
    k = rng.uniform(0.03, 0.2)
    for _ in range(length):
        d = -abs(k * (z - z_base)) - jd0 * rng.uniform(0.01, 0.08)
        if z + d < z_base - 40 * jd0:
            d = -jd0 * 0.01
        d = _r3(d)
        dz.append(d)
        z += d
    return {"kind": "dry", "rain": [0.0] * length, "dz": dz}


def gen_spec(rng, size=None):
    """Draw a synthetic dataset spec."""
    # time steps that divide an hour, that do not (45 min), and that exceed it (2 h, daily)
    dt = rng.choice([600, 1200, 1800, 1800, 3600, 3600, 900, 2700, 7200, 86400])
    s0 = rng.choice([2.0, 4.0, 8.0, 3.0, 6.0, 0.3])      # powers of two and not (products with dt_h round differently)
    j0 = rng.choice([2.0, 5.0, 8.0])
    if dt > 3600:
        # keep the water-level change per step (and with it the number of grid levels a rise
        # crosses) in the same range as for sub-hourly records: the nominal rate shrinks instead
        j0 = _r3(j0 * 3600.0 / dt)
    jd0 = j0 * dt / 3600.0
    if size is None:
        size = rng.choice(["s", "s", "m", "m", "l"])
    target = {"s": rng.randint(40, 90), "m": rng.randint(90, 200), "l": rng.randint(200, 400),
              "xl": rng.randint(2500, 4000)}[size]
    z_base = _r3(rng.uniform(-300, 0))
    z0 = _r3(z_base + rng.uniform(5, 30) * jd0)
    segments = []
    n = 0
    z = z0

    def push(seg):
        nonlocal n, z
        segments.append(seg)
        n += len(seg["rain"])
        z += sum(seg["dz"])

    begin = rng.choices(["dry", "rain", "rise", "event"], weights=[6, 1, 1, 1])[0]
    if begin == "dry":
        push(seg_dry(rng, jd0, rng.randint(2, 8), z, z_base))
    elif begin == "rain":
        push(seg_event(rng, s0, jd0, "simple"))
        push(seg_tail(rng, s0, jd0))
    elif begin == "rise":
        push(seg_event(rng, s0, jd0, "mystery"))
    else:
        push(seg_event(rng, s0, jd0))
        push(seg_tail(rng, s0, jd0))
    while n < target:
        push(seg_dry(rng, jd0, rng.randint(3, 18), z, z_base))
        push(seg_event(rng, s0, jd0))
        if rng.random() < 0.85:
            push(seg_tail(rng, s0, jd0))
    if rng.random() < 0.08 and n < 260:
        # The same weather twice at two water-level regimes (a logger re-installed at another
        # datum): two disjoint bands of levels of exactly the same extent, i.e. exact ties between
        # groups of intervals that never share a level.  The offset is a multiple of 10 mm, hence of
        # every 'nice' grid step, so that the copy crosses exactly the shifted grid levels.
        first_half = [dict(seg, rain=list(seg["rain"]), dz=list(seg["dz"])) for seg in segments]
        level, lo_z, hi_z = z0, z0, z0
        for seg in segments:
            for d in seg["dz"]:
                level += d
                lo_z, hi_z = min(lo_z, level), max(hi_z, level)
        offset = 10.0 * (int((hi_z - lo_z + 40.0 * jd0) / 10.0) + 1) * rng.choice([-1.0, 1.0])
        push({"kind": "shift", "rain": [0.0], "dz": [_r3(z0 + offset - z)]})
        for seg in first_half:
            push(seg)
    end = rng.choices(["dry", "rain", "cut"], weights=[30, 1, 1])[0]
    if end == "dry":
        push(seg_dry(rng, jd0, rng.randint(3, 10), z, z_base))
    elif end == "rain":
        push(seg_event(rng, s0, jd0, "simple"))
    # gaps in the water-level record: (first missing sample index, count)
    gaps = []
    n_gaps = rng.choices([0, 1, 2, 3], weights=[4, 3, 2, 1])[0]
    dry_spans = []
    pos = 0
    for seg in segments:
        if seg["kind"] == "dry" and len(seg["rain"]) >= 4:
            dry_spans.append((pos + 1, pos + len(seg["rain"]) - 2))
        pos += len(seg["rain"])
    for _ in range(n_gaps):
        if dry_spans and rng.random() < 0.9:
            # most gaps fall in dry weather (a gap that cuts a storm is a separate input class)
            lo_i, hi_i = rng.choice(dry_spans)
            start = rng.randint(lo_i, hi_i)
            gaps.append([start, rng.randint(1, max(1, hi_i - start))])
        else:
            start = rng.randint(3, max(4, n - 4))
            gaps.append([start, rng.randint(1, 6)])
    # occasionally a stretch of one to three samples between two gaps
    gaps.sort()
    spaced = []
    for g in gaps:
        # keep stretches between gaps at least four samples long ...
        if spaced and g[0] < spaced[-1][0] + spaced[-1][1] + 4:
            continue
        if g[0] + g[1] > n - 4:
            continue
        spaced.append(g)
    gaps = spaced
    if gaps and rng.random() < 0.04:
        # ... except, rarely and on purpose, a stretch of one to three samples
        g = rng.choice(gaps)
        gaps.append([g[0] + g[1] + rng.randint(1, 3), rng.randint(1, 3)])
    elif rng.random() < 0.01:
        gaps.append([n - 1, 1])       # last sample isolated at the end of the rain record
    gaps.sort()
    # water level may be logged on a finer grid than rain (load interpolates it onto the rain grid):
    # k samples per rain step; gaps are then given in units of water-level samples and may begin or
    # end between two rain grid times
    k = rng.choice([1, 1, 1, 1, 2, 3])
    if k > 1:
        gaps = [[g[0] * k + rng.randrange(k), g[1] * k + rng.randrange(k)] for g in gaps]
        if gaps and rng.random() < 0.2:
            # a sliver of samples strictly between two rain grid times, isolated by gaps on both
            # sides: a gap-free stretch that owns no grid time at all (load numbers it, nothing carries it)
            g = rng.choice(gaps)
            end = g[0] + g[1]
            if end % k == 0:
                g[1] += 1
                end += 1
            room = k - end % k            # samples end .. end+room-1 lie before the next grid time
            length = rng.randint(1, room)
            if length == room:
                length = max(1, room - 1) if room > 1 else 1
            if end % k + length - 1 < k and (end + length - 1) % k != 0 or room > 1:
                gaps.append([end + length, k * rng.randint(1, 3) + rng.randrange(k)])
            gaps.sort()
    spec = {
        "kind": "synthetic",
        "dt": dt, "s0": s0, "j0": j0, "z0": z0, "z_base": z_base,
        "timezone": rng.choice(TIMEZONES),
        "t0": rng.choice(T0_CHOICES),
        "segments": segments,
        "gaps": gaps,
        "wl_per_step": k,
        "wl_skip_head": rng.choice([0, 0, 0, 1, 2]),
        "wl_skip_tail": rng.choice([0, 0, 0, 1, 2]),
    }
    # a few missing-value sentinels or small negative glitches in the rain record (load accepts them;
    # they are simply steps without rain)
    if rng.random() < 0.08:
        flat = [(si, i) for si, seg in enumerate(segments) for i in range(len(seg["rain"])) if seg["rain"][i] == 0.0]
        for si, i in rng.sample(flat, min(len(flat), rng.randint(1, 4))):
            segments[si]["rain"][i] = rng.choice([-9999.0, -0.1, -1.0])
    if rng.random() < 0.12:
        # only the hour (rows from 10:00 on still look padded), or month, day and hour
        spec["unpadded_stamps"] = rng.choice(["hour", "hour", "all"])
    # rows need not be in time order (two logger downloads concatenated newest first, back-filled
    # rows appended at the end, ...): load accepts any row order
    if rng.random() < 0.25:
        spec["row_order"] = {"water_level": rng.choice(["reversed", "blocks", "shuffled"]),
                             "precipitation": rng.choice(["sorted", "sorted", "shuffled"]),
                             "evapotranspiration": rng.choice(["sorted", "sorted", "reversed"]),
                             "seed": rng.randrange(1 << 30)}
    # the water-level record may also start before / end after the rain record
    if rng.random() < 0.15:
        spec["wl_skip_head"] = -rng.randint(1, 3 * k)
        if rng.random() < 0.5:
            spec["gaps"] = sorted(spec["gaps"] + [[rng.randint(-2 * k, k), rng.randint(1, 2 * k)]])
    if rng.random() < 0.15:
        spec["wl_skip_tail"] = -rng.randint(1, 3 * k)
    return spec


def spec_arrays(spec):
    rain, dz = [], []
    for seg in spec["segments"]:
        rain.extend(seg["rain"])
        dz.extend(seg["dz"])
    zeta = [spec["z0"]]
    for d in dz:
        zeta.append(_r3(zeta[-1] + d))
    return rain, zeta  # len(zeta) == len(rain) + 1


def render(spec):
    """Return (precipitation_text, evapotranspiration_text, water_level_text)."""
    rain, zeta = spec_arrays(spec)
    dt = spec["dt"]
    n = len(rain)
    fmt = "%Y-%m-%d %H:%M:%S"

    t0 = spec_t0(spec)

    def stamp(i):
        return (t0 + datetime.timedelta(seconds=i * dt)).strftime(fmt)

    p_lines = ["datetime,precipitation rate (mm/h)"]
    for i in range(n):
        p_lines.append("%s,%r" % (stamp(i), rain[i]))
    e_lines = ["datetime,evapotranspiration (mm/h)"]
    for i in range(-1, n + 2):
        e_lines.append("%s,%r" % (stamp(i), 0.0125 + 0.001 * (i % 7)))
    k = spec.get("wl_per_step", 1)
    z_lines = ["datetime,wtd (mm)"]
    for f in kept_samples(spec):
        i, j = divmod(f, k)
        if i < 0:
            value = zeta[0]                     # before the rain record: level held flat
        elif i >= len(zeta) - 1:
            value = zeta[-1]                    # after it: likewise
        elif j == 0:
            value = zeta[i]
        else:
            value = _r3(zeta[i] + (zeta[i + 1] - zeta[i]) * j / float(k))
        when = (t0 + datetime.timedelta(seconds=f * (dt // k))).strftime(fmt)
        z_lines.append("%s,%r" % (when, value))
    if spec.get("unpadded_stamps"):
        # '2013-3-1 0:00:00' instead of '2013-03-01 00:00:00' in the water-level file (strptime reads both)
        def unpad(line):
            stamp, _, rest = line.partition(",")
            try:
                d, t = stamp.split(" ")
                y, m, dd = d.split("-")
                hh, mm, ss = t.split(":")
                if spec["unpadded_stamps"] == "hour":
                    return "%s-%s-%s %d:%s:%s,%s" % (y, m, dd, int(hh), mm, ss, rest)
                return "%s-%d-%d %d:%s:%s,%s" % (y, int(m), int(dd), int(hh), mm, ss, rest)
            except ValueError:
                return line
        z_lines = [z_lines[0]] + [unpad(l) for l in z_lines[1:]]
    order = spec.get("row_order")
    if order:
        import random as _random  # pylint: disable=import-outside-toplevel
        shuffler = _random.Random(order.get("seed", 0))
        p_lines = _reorder(p_lines, order.get("precipitation", "sorted"), shuffler)
        e_lines = _reorder(e_lines, order.get("evapotranspiration", "sorted"), shuffler)
        z_lines = _reorder(z_lines, order.get("water_level", "sorted"), shuffler)
    return ("\n".join(p_lines) + "\n", "\n".join(e_lines) + "\n", "\n".join(z_lines) + "\n")


def _reorder(lines, how, shuffler):
    """Header first, data rows in another order (same rows)."""
    header, rows = lines[0], lines[1:]
    if how == "reversed":
        rows = rows[::-1]
    elif how == "shuffled":
        rows = list(rows)
        shuffler.shuffle(rows)
    elif how == "blocks" and len(rows) > 3:
        cut = shuffler.randrange(1, len(rows) - 1)
        rows = rows[cut:] + rows[:cut]          # second download listed before the first
    return [header] + rows


def kept_samples(spec):
    """Indices (in water-level sample units: k per rain step) of the samples in
    the water-level file.  The first and the last retained sample are never
    dropped (they define the record)."""
    rain, _ = spec_arrays(spec)
    n = len(rain)
    k = spec.get("wl_per_step", 1)
    missing = set()
    for start, count in spec["gaps"]:
        for i in range(start, start + count):
            missing.add(i)
    lo = spec.get("wl_skip_head", 0)
    hi = k * n + 1 - spec.get("wl_skip_tail", 0)
    return [f for f in range(lo, hi) if f not in missing or f in (lo, hi - 1)]


def spec_stretch_sizes(spec):
    """How many (rain, water level) samples each gap-free stretch of the SOURCE
    record holds, by the documented semantics of load and independently of
    load's code: a stretch is a maximal run of consecutive water-level samples;
    it owns the rain grid times between its first and last sample (the first
    stretch starts at the first grid time, the last one also owns the closing
    grid time, which carries no rain value).  Returns a list of counts, one per
    stretch that owns at least one grid time."""
    rain, _ = spec_arrays(spec)
    n = len(rain)
    k = spec.get("wl_per_step", 1)
    kept = kept_samples(spec)
    if len(kept) < 2:
        return []
    stretches = [[kept[0], kept[0]]]
    for f in kept[1:]:
        if f == stretches[-1][1] + 1:
            stretches[-1][1] = f
        else:
            stretches.append([f, f])
    # rain grid times inside the water-level record, plus the closing one
    first_i = max(0, -(-kept[0] // k))
    last_i = min(kept[-1] // k, n - 1)
    grid = list(range(first_i, last_i + 1)) + [last_i + 1]
    sizes = []
    for idx, (fa, fb) in enumerate(stretches):
        lo_t = grid[0] * k if idx == 0 else fa
        hi_t = grid[-1] * k if idx == len(stretches) - 1 else fb
        owned = [i for i in grid if lo_t <= i * k <= hi_t]
        if owned:
            sizes.append(sum(1 for i in owned if i <= last_i))
    return sizes


def spec_stretch_ranges(spec):
    """(first, last) rain-grid index owned by each gap-free stretch of the SOURCE
    record that owns at least one sample with rainfall (see spec_stretch_sizes)."""
    rain, _ = spec_arrays(spec)
    n = len(rain)
    k = spec.get("wl_per_step", 1)
    kept = kept_samples(spec)
    if len(kept) < 2:
        return []
    stretches = [[kept[0], kept[0]]]
    for f in kept[1:]:
        if f == stretches[-1][1] + 1:
            stretches[-1][1] = f
        else:
            stretches.append([f, f])
    first_i = max(0, -(-kept[0] // k))
    last_i = min(kept[-1] // k, n - 1)
    grid = list(range(first_i, last_i + 1)) + [last_i + 1]
    out = []
    for idx, (fa, fb) in enumerate(stretches):
        lo_t = grid[0] * k if idx == 0 else fa
        hi_t = grid[-1] * k if idx == len(stretches) - 1 else fb
        owned = [i for i in grid if lo_t <= i * k <= hi_t and i <= last_i]
        if owned:
            out.append((owned[0], owned[-1]))
    return out


def spec_storm_at_stretch_end(spec, s_thr, j_thr):
    """True iff, in the SOURCE record, some gap-free stretch ends in a storm
    (rain > s_thr on its last sample) that shares a step with a rise
    (increment > j_thr * dt_h): the open known finding about a matched storm
    that reaches the end of a stretch, as a property of the input files."""
    rain, zeta = spec_arrays(spec)
    jump = j_thr * (float(spec["dt"]) / 3600.0)
    for i0, i1 in spec_stretch_ranges(spec):
        if not rain[i1] > s_thr:
            continue
        a = i1
        while a > i0 and rain[a - 1] > s_thr:
            a -= 1
        for i in range(a, i1):                 # increments i -> i+1 inside the stretch
            if zeta[i + 1] - zeta[i] > jump:
                return True
    return False


def spec_degenerate_classes(spec):
    """Input classes 'one_sample_stretch' / 'zero_sample_stretch' as properties
    of the source files (not of what load made of them)."""
    out = set()
    for size in spec_stretch_sizes(spec):
        if size == 0:
            out.add("zero_sample_stretch")
        elif size == 1:
            out.add("one_sample_stretch")
    return sorted(out)


def write_inputs(spec, directory):
    """Write the three input files; return their paths and the time zone."""
    if spec["kind"] == "field":
        k = spec["sample"]
        base = env.repo_path("spowtd", "test", "sample_data")
        return (os.path.join(base, "precipitation_%d.txt" % k),
                os.path.join(base, "evapotranspiration_%d.txt" % k),
                os.path.join(base, "water_level_%d.txt" % k),
                "Africa/Lagos")
    texts = render(spec)
    paths = []
    for name, text in zip(("precipitation.txt", "evapotranspiration.txt", "water_level.txt"), texts):
        path = os.path.join(directory, name)
        with open(path, "w", encoding="utf-8") as f:
            f.write(text)
        paths.append(path)
    return (paths[0], paths[1], paths[2], spec["timezone"])


def load_argv(spec, directory, db="{db}"):
    p, e, z, tz = write_inputs(spec, directory)
    return ["load", db, "-p", p, "-e", e, "-z", z, "--timezone", tz]


def describe(spec):
    if spec["kind"] == "field":
        return "field:%d" % spec["sample"]
    rain, _ = spec_arrays(spec)
    kinds = [s["kind"] for s in spec["segments"] if s["kind"] not in ("dry", "tail")]
    return "synthetic n=%d dt=%d wl_per_step=%d gaps=%d events=%s" % (
        len(rain), spec["dt"], spec.get("wl_per_step", 1), len(spec["gaps"]), ",".join(kinds))


# ---------------------------------------------------------------------------
# knobs
# ---------------------------------------------------------------------------

def gen_knobs(rng, spec):
    """Configuration of one trial: thresholds, grid, curvature, reference, cache."""
    if spec["kind"] == "field":
        s0, j0 = 8.0, 5.0
    else:
        s0, j0 = spec["s0"], spec["j0"]
    s = rng.choice([s0, s0, s0, _r3(s0 * 0.5), _r3(s0 * 1.5), _r3(s0 * 2)])
    j = rng.choice([j0, j0, j0, _r3(j0 * 0.5), _r3(j0 * 1.5), _r3(j0 * 2)])
    grid = rng.choice([0.5, 1.0, 1.0, 2.0, 5.0, 10.0, 2.5, 0.7, 3.0, 1.0, 2.0, 0.1, 0.3, 1.0 / 3.0, 500.0, 0.25])
    return {
        "thresholds": [s, j],
        "grid_mm": grid,
        "curvature": rng.choice([0.5, 1.0, 1.5, 2.25, -0.75, 0.0, 1e-3, 40.0, -0.0, 1e6, -40.0, 1e-9, 0.1 + 0.2]),
        "verbosity": rng.choice([0, 0, 0, 1, 2, 3, 4]),
        "logfile": rng.random() < 0.2,
        "reference": rng.choice([None, None, None, "on_grid"]),
        "cache_pages": rng.choice([None, None, 1, 1, 4, 16]),
        "b_every": rng.choice([1, 7, 50, 400]),
    }
