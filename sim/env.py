"""Process-wide configuration: repo location, scratch directories, numpy shim.

Everything here is deterministic: no clocks, no pids in anything that is
logged.  Scratch directories are created at run time and removed at exit.
"""

import atexit
import os
import shutil
import sys
import tempfile

VERIF_ROOT = os.path.dirname(os.path.dirname(os.path.abspath(__file__)))
REPO = os.environ.get("VERIF_REPO", "/repo")
GUARD = "SPOWTD_VERIF"

_SCRATCH = None


def repo_path(*parts):
    return os.path.join(REPO, *parts)


def install_repo_on_path():
    """Import spowtd from the current working tree of the repository."""
    if sys.path[0] != REPO:
        sys.path.insert(0, REPO)


def install_numpy_shim():
    """numpy 2 removed alltrue / NaN; spowtd's rise/recession need them.

    Harness-side compatibility only (DESIGN 3.2): a no-op on a tree where
    the calls have been modernised.
    """
    import numpy

    if not hasattr(numpy, "alltrue"):
        numpy.alltrue = numpy.all
    if not hasattr(numpy, "NaN"):
        numpy.NaN = numpy.nan


def scratch_root():
    """Per-process scratch directory (under /dev/shm when available)."""
    global _SCRATCH
    if _SCRATCH is not None and os.path.isdir(_SCRATCH) and _SCRATCH_PID == os.getpid():
        return _SCRATCH
    base = os.environ.get("VERIF_SCRATCH")
    if not base:
        base = "/dev/shm" if os.path.isdir("/dev/shm") and os.access("/dev/shm", os.W_OK) else tempfile.gettempdir()
    path = tempfile.mkdtemp(prefix="spowtd-verif-", dir=base)
    _set_scratch(path)
    return path


_SCRATCH_PID = None


def _set_scratch(path):
    global _SCRATCH, _SCRATCH_PID
    _SCRATCH = path
    _SCRATCH_PID = os.getpid()
    pid = os.getpid()

    def _cleanup(path=path, pid=pid):
        if os.getpid() == pid:
            shutil.rmtree(path, ignore_errors=True)

    atexit.register(_cleanup)


def cleanup_scratch():
    global _SCRATCH
    if _SCRATCH is not None and _SCRATCH_PID == os.getpid():
        shutil.rmtree(_SCRATCH, ignore_errors=True)
        _SCRATCH = None
