"""Logical dump of a spowtd dataset file, its digest, and the abstract model.

The dump is what C20 calls "the content of the dataset": for every object in
sqlite_master (ordered by name) its SQL text; for every table all rows,
sorted; PRAGMA integrity_check.  REAL values are compared bit for bit
(float.hex).  Opening the file with a plain connection *is* the restart after
a crash: SQLite performs hot-journal recovery on that open, exactly as the
next spowtd command would.
"""

import hashlib
import os
import sqlite3

from . import sqlseam

STEPS = ("classify", "set-zeta-grid", "set-curvature", "recession", "rise")

# tables a step writes; used for per-table digests and the abstract model
STEP_TABLES = {
    "classify": ("thresholds", "grid_time_flags", "storm", "zeta_interval", "zeta_interval_storm"),
    "set-zeta-grid": ("zeta_grid", "discrete_zeta"),
    "set-curvature": ("curvature",),
    "recession": ("recession_interval", "recession_interval_zeta"),
    "rise": ("rising_interval", "rising_interval_zeta"),
}


def _canon(value):
    if isinstance(value, float):
        return "f:" + value.hex()
    if value is None:
        return "n:"
    if isinstance(value, int):
        return "i:%d" % value
    if isinstance(value, bytes):
        return "b:" + value.hex()
    return "s:" + str(value)


class Dump:
    """Digest per table plus schema digest and integrity verdict."""

    __slots__ = ("tables", "schema", "integrity", "counts", "error")

    def __init__(self):
        self.tables = {}
        self.schema = ""
        self.integrity = "ok"
        self.counts = {}
        self.error = None

    @property
    def digest(self):
        h = hashlib.sha1()
        h.update(self.schema.encode())
        for name in sorted(self.tables):
            h.update(name.encode())
            h.update(self.tables[name].encode())
        h.update(self.integrity.encode())
        if self.error:
            h.update(self.error.encode())
        return h.hexdigest()[:16]

    def __eq__(self, other):
        return isinstance(other, Dump) and self.digest == other.digest

    def __hash__(self):
        return hash(self.digest)

    def diff(self, other):
        """Names of tables (or 'schema', 'integrity') that differ."""
        out = []
        if self.schema != other.schema:
            out.append("schema")
        for name in sorted(set(self.tables) | set(other.tables)):
            if self.tables.get(name) != other.tables.get(name):
                out.append("%s(rows here=%s, there=%s)" % (name, self.counts.get(name), other.counts.get(name)))
        if self.integrity != other.integrity:
            out.append("integrity")
        if self.error != other.error:
            out.append("error")
        return out

    def rows(self, table):
        return self.counts.get(table, 0)


def dump(path, static_cache=None):
    """Open (=> recover) and dump the dataset at `path`.

    `static_cache` maps table name -> (count, digest) for tables known to be
    immutable after load (staging and gridded inputs); when given, such a
    table is only re-hashed if its row count changed.  This keeps dumps of the
    30 k-sample field datasets affordable without weakening the comparison for
    the small synthetic ones (where it is not used).
    """
    d = Dump()
    if not os.path.exists(path):
        d.error = "missing"
        return d
    try:
        con = sqlseam.plain_connect(path)
    except sqlite3.Error as exc:
        d.error = "open:" + type(exc).__name__
        return d
    try:
        try:
            master = con.execute(
                "SELECT type, name, tbl_name, sql FROM sqlite_master ORDER BY name, type").fetchall()
        except sqlite3.Error as exc:
            d.error = "master:%s:%s" % (type(exc).__name__, exc)
            return d
        try:
            header = [con.execute("PRAGMA " + name).fetchone()[0] for name in ("user_version", "application_id")]
        except sqlite3.Error as exc:
            header = ["error:%s" % exc]
        d.schema = hashlib.sha1(repr((master, header)).encode()).hexdigest()
        for typ, name, _tbl, _sql in master:
            if typ != "table":
                continue
            try:
                if static_cache is not None and name in static_cache:
                    (n,) = con.execute('SELECT count(*) FROM "%s"' % name).fetchone()
                    if n == static_cache[name][0]:
                        d.counts[name] = n
                        d.tables[name] = static_cache[name][1]
                        continue
                rows = con.execute('SELECT * FROM "%s"' % name).fetchall()
                canon = sorted(tuple(_canon(v) for v in row) for row in rows)
                d.counts[name] = len(canon)
                d.tables[name] = hashlib.sha1(repr(canon).encode()).hexdigest()
            except sqlite3.Error as exc:
                d.counts[name] = -1
                d.tables[name] = "error:%s:%s" % (type(exc).__name__, exc)
        try:
            res = con.execute("PRAGMA integrity_check").fetchall()
            d.integrity = ";".join(str(r[0]) for r in res)
        except sqlite3.Error as exc:
            d.integrity = "error:%s:%s" % (type(exc).__name__, exc)
    finally:
        con.close()
    return d


STATIC_TABLES = (
    "rainfall_intensity_staging", "water_level_staging", "evapotranspiration_staging",
    "grid_time", "rainfall_intensity", "evapotranspiration", "water_level",
)


def static_cache_from(d):
    return {name: (d.counts[name], d.tables[name]) for name in STATIC_TABLES if name in d.tables}


def markers(path):
    """Which steps have left their marker (abstract model observation).

    classify: a thresholds row and one grid_time_flags row per water-level
    sample that belongs to a data interval; set-zeta-grid: a zeta_grid row
    and a non-empty discrete_zeta; set-curvature: a curvature row;
    recession / rise: both of their tables non-empty.
    Returns dict step -> value (None when absent).
    """
    out = {s: None for s in STEPS}
    con = sqlseam.plain_connect(path)
    try:
        return _markers(con, out)
    except (sqlite3.Error, TypeError) as exc:
        # unreadable / malformed file: no marker can be vouched for
        return {s: None for s in STEPS} | {"_error": "%s: %s" % (type(exc).__name__, exc)}
    finally:
        con.close()


def _markers(con, out):
    if True:  # pylint: disable=using-constant-test
        names = {r[0] for r in con.execute("SELECT name FROM sqlite_master WHERE type='table'")}

        def one(sql):
            try:
                return con.execute(sql).fetchone()
            except sqlite3.Error:
                return None

        if "thresholds" in names:
            row = one("SELECT storm_rain_threshold_mm_h, rising_jump_threshold_mm_h FROM thresholds")
            if row is not None:
                n_flags = one("SELECT count(*) FROM grid_time_flags")[0]
                n_wl = one(
                    "SELECT count(*) FROM grid_time JOIN rainfall_intensity ON from_epoch = grid_time.epoch "
                    "JOIN water_level ON water_level.epoch = grid_time.epoch WHERE data_interval IS NOT NULL")[0]
                out["classify"] = {"thresholds": list(row), "flags": n_flags, "expected_flags": n_wl}
        if "zeta_grid" in names:
            row = one("SELECT grid_interval_mm FROM zeta_grid")
            if row is not None:
                out["set-zeta-grid"] = {"step": row[0], "n": one("SELECT count(*) FROM discrete_zeta")[0]}
        if "curvature" in names:
            row = one("SELECT curvature_m_km2 FROM curvature")
            if row is not None:
                out["set-curvature"] = {"value": row[0]}
        if "recession_interval" in names:
            a = one("SELECT count(*) FROM recession_interval")[0]
            b = one("SELECT count(*) FROM recession_interval_zeta")[0]
            if a or b:
                out["recession"] = {"intervals": a, "zeta": b}
        if "rising_interval" in names:
            a = one("SELECT count(*) FROM rising_interval")[0]
            b = one("SELECT count(*) FROM rising_interval_zeta")[0]
            if a or b:
                out["rise"] = {"intervals": a, "zeta": b}
    return out
