"""Reference model for C01 / C02.  Shares no code with spowtd.

An *instance* is a bipartite candidate graph:

    storms: {sid: (start, duration)}     duration in time steps, [start, start+duration)
    rises:  {rid: (start, duration)}     duration in time steps (= number of increments)
    edges:  set of (sid, rid)            "overlap in time"

The property's preferences (C02): a storm prefers the rise whose duration is
closer to its own; a rise prefers the storm whose start is closer to its own.
A pair (s, r) in `edges`, not matched to each other, *blocks* a matching iff
(s is unmatched or r is strictly closer in duration than s's partner) and
(r is unmatched or s is strictly closer in start than r's partner).

`rise_bias` lets the same verdicts be recomputed with the rise duration taken
as duration + bias steps in the storm's preference (bias=1 reproduces the
sample-count measure spowtd used before the F6 repair); it is only used to
*attribute* a failure, never to excuse one.
"""


def storm_cost(inst, s, r, rise_bias=0):
    return abs(inst["storms"][s][1] - (inst["rises"][r][1] + rise_bias))


def rise_cost(inst, s, r):
    return abs(inst["rises"][r][0] - inst["storms"][s][0])


def adjacency(inst):
    by_s, by_r = {}, {}
    for s, r in sorted(inst["edges"]):
        by_s.setdefault(s, []).append(r)
        by_r.setdefault(r, []).append(s)
    return by_s, by_r


def has_ties(inst, rise_bias=0):
    """True iff some storm has two candidates at equal duration distance or
    some rise has two candidates at equal start distance."""
    by_s, by_r = adjacency(inst)
    for s, rs in by_s.items():
        costs = [storm_cost(inst, s, r, rise_bias) for r in rs]
        if len(set(costs)) != len(costs):
            return True
    for r, ss in by_r.items():
        costs = [rise_cost(inst, s, r) for s in ss]
        if len(set(costs)) != len(costs):
            return True
    return False


def well_formed(inst, matching):
    """matching: dict rid -> sid.  Returns list of problems (empty = fine)."""
    problems = []
    seen = {}
    for r, s in matching.items():
        if (s, r) not in inst["edges"]:
            problems.append("pair (storm %s, rise %s) is not a candidate" % (s, r))
        if s in seen:
            problems.append("storm %s matched to rises %s and %s" % (s, seen[s], r))
        seen[s] = r
    return problems


def blocking_pairs(inst, matching, rise_bias=0):
    """matching: dict rid -> sid (one-to-one).  List of blocking (s, r)."""
    partner_of_storm = {s: r for r, s in matching.items()}
    out = []
    for s, r in sorted(inst["edges"]):
        if matching.get(r) == s:
            continue
        if s in partner_of_storm:
            if not storm_cost(inst, s, r, rise_bias) < storm_cost(inst, s, partner_of_storm[s], rise_bias):
                continue
        if r in matching:
            if not rise_cost(inst, s, r) < rise_cost(inst, matching[r], r):
                continue
        out.append((s, r))
    return out


def components(inst):
    """Connected components of the candidate graph as sub-instances."""
    by_s, by_r = adjacency(inst)
    seen_s, seen_r = set(), set()
    comps = []
    for s0 in sorted(by_s):
        if s0 in seen_s:
            continue
        cs, cr = set(), set()
        stack = [("s", s0)]
        while stack:
            kind, x = stack.pop()
            if kind == "s":
                if x in cs:
                    continue
                cs.add(x)
                stack.extend(("r", r) for r in by_s.get(x, ()))
            else:
                if x in cr:
                    continue
                cr.add(x)
                stack.extend(("s", s) for s in by_r.get(x, ()))
        seen_s |= cs
        seen_r |= cr
        comps.append({
            "storms": {s: inst["storms"][s] for s in cs},
            "rises": {r: inst["rises"][r] for r in cr},
            "edges": {(s, r) for (s, r) in inst["edges"] if s in cs},
        })
    return comps


def all_matchings(inst, cap=200000):
    """Every one-to-one sub-relation of edges (as dict rid -> sid); None if > cap."""
    by_s, _ = adjacency(inst)
    storms = sorted(by_s)
    out = []
    current = {}

    def rec(i):
        if len(out) > cap:
            return
        if i == len(storms):
            out.append(dict(current))
            return
        s = storms[i]
        rec(i + 1)
        for r in by_s[s]:
            if r not in current:
                current[r] = s
                rec(i + 1)
                del current[r]

    rec(0)
    if len(out) > cap:
        return None
    return out


def stable_matchings(inst, rise_bias=0, cap=200000):
    ms = all_matchings(inst, cap)
    if ms is None:
        return None
    return [m for m in ms if not blocking_pairs(inst, m, rise_bias)]


def storm_optimal(inst, rise_bias=0, cap=200000):
    """For an instance without ties: the stable matching that gives every storm
    its best partner among all stable matchings, found by brute force.
    Returns (matching, n_stable) or (None, n) when no single stable matching is
    simultaneously best for every storm (cannot happen without ties) or the
    enumeration was capped."""
    stable = stable_matchings(inst, rise_bias, cap)
    if stable is None:
        return None, None
    best = {}
    for m in stable:
        for r, s in m.items():
            c = storm_cost(inst, s, r, rise_bias)
            if s not in best or c < best[s]:
                best[s] = c
    for m in stable:
        partner = {s: r for r, s in m.items()}
        if set(partner) == set(best) and all(
                storm_cost(inst, s, partner[s], rise_bias) == best[s] for s in best):
            return m, len(stable)
    return None, len(stable)


def deferred_acceptance(inst, rise_bias=0):
    """Textbook storm-proposing deferred acceptance (FIFO), for instances too
    large to enumerate.  Ties are broken by identifier; only used as the
    storm-optimal reference when `has_ties` is False."""
    by_s, _ = adjacency(inst)
    prefs = {s: sorted(rs, key=lambda r, s=s: (storm_cost(inst, s, r, rise_bias), r)) for s, rs in by_s.items()}
    nxt = {s: 0 for s in prefs}
    free = sorted(prefs)
    matching = {}
    while free:
        s = free.pop(0)
        if nxt[s] >= len(prefs[s]):
            continue
        r = prefs[s][nxt[s]]
        nxt[s] += 1
        if r not in matching:
            matching[r] = s
        elif rise_cost(inst, s, r) < rise_cost(inst, matching[r], r):
            free.append(matching[r])
            matching[r] = s
        else:
            free.append(s)
    return matching


def inst_digest(inst):
    import hashlib
    h = hashlib.sha1(repr((sorted(inst["storms"].items()), sorted(inst["rises"].items()),
                           sorted(inst["edges"]))).encode())
    return h.hexdigest()[:12]
