"""Self-tests of the machinery: determinism and sensitivity (DESIGN section 8)."""

import collections
import json
import os
import shutil
import subprocess
import sys
import tempfile

from sim import env, runner

VCHECK = os.path.join(env.VERIF_ROOT, "bin", "vcheck")


# ---------------------------------------------------------------------------
# determinism
# ---------------------------------------------------------------------------

def digests(n_jobs):
    """Event-log digests for a fixed set of seeds (run in *this* interpreter)."""
    from checks import c20, matching
    from sim import cli
    seed = runner.base_seed()
    out = {}
    with runner.Scratch():
        cli._main()  # pylint: disable=protected-access
        matching.classify_module()
        jobs = [("hist", {"seed": runner.derive_seed(seed, "det", "hist", i), "count": 3}) for i in range(n_jobs)]
        for job, res in zip(jobs, runner.run_jobs(c20._dispatch, jobs)):  # pylint: disable=protected-access
            for s, d in res["digests"]:
                out["c20:%d" % s] = d
            out["c20stats:%d" % job[1]["seed"]] = runner.digest(sorted(res["stats"].items()))
        sw = [("sweep", {"seed": runner.derive_seed(seed, "det", "sweep", i), "step": step, "prefix": list(prefix),
                         "max_positions": 60})
              for i, (step, prefix) in enumerate(c20.SWEEP_CASES[:4])]
        for job, res in zip(sw, runner.run_jobs(c20._dispatch, sw)):  # pylint: disable=protected-access
            out["c20sweep:%d" % job[1]["seed"]] = runner.digest([sorted(res["stats"].items()), res["distinct"]])
        mj = [("fn", {"seed": runner.derive_seed(seed, "det", "fn", i), "count": 100, "n_sched": 5}) for i in range(n_jobs)]
        mj += [("syn", {"seed": runner.derive_seed(seed, "det", "syn", i), "count": 3, "threshold_pairs": 2, "n_sched": 3})
               for i in range(n_jobs)]
        for job, res in zip(mj, runner.run_jobs(matching._dispatch, mj)):  # pylint: disable=protected-access
            out["match:%s:%d" % (job[0], job[1]["seed"])] = runner.digest(
                [sorted(res["stats"].items()), sorted(res["distinct"]),
                 [(v["property"], v["class"]) for v in res["violations"]]])
    return out


def print_digests(n_jobs):
    print("DIGESTS " + json.dumps(digests(n_jobs), sort_keys=True))
    return 0


def determinism(tier):
    """Same seeds in fresh interpreters: two hash seeds, 1 and 16 workers, twice."""
    n_jobs = 6 if tier == "quick" else 40
    configs = [("0", "1"), ("0", "16"), ("12345", "16"), ("0", "16"), ("987", "3")]
    results = []
    for hashseed, workers in configs:
        envv = dict(os.environ)
        for k in ("VCHECK_REEXEC", "LD_PRELOAD", "VCHECK_SHIM", "PYTHONHASHSEED"):
            envv.pop(k, None)
        envv["VERIF_HASHSEED"] = hashseed
        envv["VERIF_WORKERS"] = workers
        proc = subprocess.run([VCHECK, "_digests", "--n", str(n_jobs)], env=envv, capture_output=True, text=True,
                              timeout=3600, check=False)
        line = [l for l in proc.stdout.splitlines() if l.startswith("DIGESTS ")]
        if proc.returncode != 0 or not line:
            print(proc.stdout[-2000:])
            print(proc.stderr[-2000:])
            raise runner.HarnessError("digest run failed (hashseed=%s workers=%s)" % (hashseed, workers))
        results.append(json.loads(line[0][len("DIGESTS "):]))
    ref = results[0]
    bad = 0
    for (hashseed, workers), res in zip(configs[1:], results[1:]):
        keys = set(ref) | set(res)
        diff = [k for k in sorted(keys) if ref.get(k) != res.get(k)]
        print("hashseed=%s workers=%s: %d digests, %d differ from reference" % (hashseed, workers, len(res), len(diff)))
        for k in diff[:5]:
            print("   ", k, ref.get(k), res.get(k))
        bad += len(diff)
    print("determinism: %d runs x %d configurations, %d divergences" % (len(ref), len(configs), bad))
    return 0 if bad == 0 else 2


# ---------------------------------------------------------------------------
# sensitivity
# ---------------------------------------------------------------------------

MUTANT_DIR = os.path.join(env.VERIF_ROOT, "selftest", "mutants")


def sensitivity(tier, only=None):
    """Apply each mutant patch to a scratch copy of the repository and run the
    relevant quick check against it (VERIF_REPO): it must report a VIOLATION of
    the right property (or stay quiet, for the mutants marked equivalent), and
    the replay must reproduce in a fresh process."""
    with open(os.path.join(MUTANT_DIR, "index.json"), encoding="utf-8") as f:
        index = json.load(f)
    failures = 0
    rows = []
    for entry in index:
        if only and only not in entry["patch"]:
            continue
        scratch = tempfile.mkdtemp(prefix="spowtd-mutant-")
        try:
            repo = os.path.join(scratch, "repo")
            subprocess.check_call(["git", "-C", env.REPO, "worktree", "add", "--detach", "-f", repo, "HEAD"],
                                  stdout=subprocess.DEVNULL, stderr=subprocess.DEVNULL)
            try:
                # carry over uncommitted edits of the tree under test
                diff = subprocess.run(["git", "-C", env.REPO, "diff", "HEAD"], capture_output=True, check=True).stdout
                if diff.strip():
                    subprocess.run(["git", "-C", repo, "apply"], input=diff, check=True)
                subprocess.check_call(["git", "-C", repo, "apply", os.path.join(MUTANT_DIR, entry["patch"])])
                envv = dict(os.environ)
                for k in ("VCHECK_REEXEC", "LD_PRELOAD", "VCHECK_SHIM"):
                    envv.pop(k, None)
                envv["VERIF_REPO"] = repo
                envv["VERIF_EVIDENCE_DIR"] = os.path.join(scratch, "evidence")
                envv["VERIF_REPLAY_DIR"] = os.path.join(scratch, "replays")
                for prop in entry["checks"]:
                    cmd = [VCHECK, prop, "--tier", "quick"]
                    if entry.get("only"):
                        cmd += ["--only", entry["only"]]
                    proc = subprocess.run(cmd, env=envv, capture_output=True, text=True, timeout=3600, check=False)
                    lines = [l for l in proc.stdout.splitlines() if l.startswith("VIOLATION property=%s " % prop)]
                    expect = prop in entry.get("expect", entry["checks"])
                    got = bool(lines) and proc.returncode == 1
                    replay_ok = None
                    if got:
                        path = lines[0].split("replay=")[1].strip()
                        rp = subprocess.run([VCHECK, prop, "--replay", path], env=envv, capture_output=True,
                                            text=True, timeout=1200, check=False)
                        replay_ok = rp.returncode == 1 and "VIOLATION property=%s" % prop in rp.stdout
                    ok = (got == expect) and (replay_ok is not False) and proc.returncode in (0, 1)
                    rows.append((entry["patch"], prop, "expected" if expect else "must stay quiet",
                                 "VIOLATION" if got else "quiet(rc=%d)" % proc.returncode, replay_ok, "ok" if ok else "MISSED"))
                    print("%-44s %s %-16s -> %-12s replay=%s %s" % rows[-1])
                    sys.stdout.flush()
                    if not ok:
                        failures += 1
                        print(proc.stdout[-1500:])
            finally:
                subprocess.call(["git", "-C", env.REPO, "worktree", "remove", "--force", repo],
                                stdout=subprocess.DEVNULL, stderr=subprocess.DEVNULL)
        finally:
            shutil.rmtree(scratch, ignore_errors=True)
    print("sensitivity: %d mutant/check pairs, %d not as expected" % (len(rows), failures))
    return 0 if failures == 0 else 2
