"""C20 engine: every workflow step is all-or-nothing; independent steps commute.

System under simulation: the SQLite dataset file plus the real spowtd commands,
called in-process through spowtd.user_interface.main (or in a forked child when
the fault is a process kill).  The simulator owns: the command history
(including premature, repeated and rejected attempts), where a statement fails,
where SQLite is interrupted inside a statement, which write-class system call
fails or is the last one before SIGKILL, who else holds a lock on the file, and
SQLite's cache size (which decides *when* pages reach the file).

See DESIGN.md section 4.
"""

import collections
import json
import os
import random
import shutil
import signal
import sys

from sim import cli, dump as dump_mod, env, runner, sqlseam, sysfault, workload

STEPS = dump_mod.STEPS
PREREQ = {
    "classify": (), "set-zeta-grid": (), "set-curvature": (),
    "recession": ("classify", "set-zeta-grid"), "rise": ("classify", "set-zeta-grid"),
}
CANON_ORDER = ("classify", "set-zeta-grid", "set-curvature", "recession", "rise")
READ_ONLY = ("simulate-rise", "simulate-rise-obs", "pest-rise-tpl", "pest-rise-ins", "pest-rise-pst",
             "pest-curves-tpl", "pest-curves-ins", "pest-curves-pst", "simulate-recession",
             "plot-rise", "plot-recession", "plot-rise-params", "plot-recession-params", "plot-time-series")
FAILING_VARIANTS = ("rise-offgrid", "recession-offgrid", "rise-absent", "recession-absent",
                    "classify-badargs", "load-again", "grid-badargs",
                    # a step attempted again with OTHER argument values (refused by the singleton tables)
                    "classify-other", "set-zeta-grid-other", "set-curvature-other",
                    "set-zeta-grid-other", "set-curvature-other")


def fnum(x):
    return repr(float(x))


def op_argv(op, knobs, load_argv=None):
    """argv (with {db}) for an op name, including the shared logging flags."""
    flag = None
    if "+" in op:
        op, flag = op.split("+", 1)
    argv = _op_argv(op, knobs, load_argv)
    if flag:
        argv = argv + [flag]
    if op == "load-again" or op.endswith("-badargs"):
        return argv
    extra = []
    if knobs.get("verbosity"):
        extra.append("-" + "v" * int(knobs["verbosity"]))
    if knobs.get("logfile"):
        extra += ["--logfile", "{db}.log"]
    return argv + extra


def _op_argv(op, knobs, load_argv=None):
    s, j = knobs["thresholds"]
    g = knobs["grid_mm"]
    ref = knobs.get("reference_%s_mm" % op, knobs.get("reference_mm")) if op in ("rise", "recession") else None
    sd = env.repo_path("spowtd", "test", "sample_data")
    par = os.path.join(sd, "%s_parameters.yml" % knobs.get("parameters", "peatclsm"))
    if op == "classify":
        return ["classify", "{db}", "-s", fnum(s), "-j", fnum(j)]
    if op == "set-zeta-grid":
        return ["set-zeta-grid", "{db}", "-d", fnum(g)]
    if op == "set-curvature":
        return ["set-curvature", "{db}", fnum(knobs["curvature"])]
    if op in ("rise", "recession"):
        return [op, "{db}"] + (["-r", fnum(ref)] if ref is not None else [])
    if op in ("rise-offgrid", "recession-offgrid"):
        return [op.split("-")[0], "{db}", "-r", fnum(g * 0.37)]
    if op in ("rise-absent", "recession-absent"):
        return [op.split("-")[0], "{db}", "-r", fnum(g * 1000000.0)]
    if op == "classify-other":
        return ["classify", "{db}", "-s", fnum(s * 1.5 + 0.25), "-j", fnum(j * 0.5 + 0.125)]
    if op == "set-zeta-grid-other":
        return ["set-zeta-grid", "{db}", "-d", fnum(knobs.get("grid_other_mm") or (g * 2.0 if g < 4 else g / 4.0))]
    if op == "set-curvature-other":
        return ["set-curvature", "{db}", fnum(knobs["curvature"] + 0.375)]
    if op == "classify-badargs":
        return ["classify", "{db}", "-s", "heavy"]
    if op == "grid-badargs":
        return ["set-zeta-grid", "{db}", "-d"]
    if op == "load-again":
        return list(load_argv)
    if op == "simulate-rise":
        return ["simulate", "rise", "{db}", par]
    if op == "simulate-rise-obs":
        return ["simulate", "rise", "{db}", par, "--observations"]
    if op == "simulate-recession":
        return ["simulate", "recession", "{db}", os.path.join(sd, "peatclsm_parameters.yml")]
    if op == "plot-time-series":
        return ["plot", "time-series", "{db}", "-f"]
    if op in ("plot-rise", "plot-recession"):
        return ["plot", op.split("-")[1], "{db}"]
    if op in ("plot-rise-params", "plot-recession-params"):
        return ["plot", op.split("-")[1], "{db}", "-p", os.path.join(sd, "peatclsm_parameters.yml")]
    if op.startswith("pest-"):
        _, which, typ = op.split("-")
        return ["pestfiles", which, "{db}", par, typ]
    raise ValueError(op)


_EXTRA_FLAGS = None


def extra_flags():
    """Boolean command-line options of the five steps that this machinery does
    not know (today there are none).  A tree that adds one -- say `--force` --
    has it exercised like any other argument: alone and together with other
    argument values, fault free and under faults, judged by the same oracles."""
    global _EXTRA_FLAGS
    if _EXTRA_FLAGS is None:
        import argparse  # pylint: disable=import-outside-toplevel
        flags = {}
        try:
            cli._main()  # pylint: disable=protected-access
            import spowtd.user_interface as ui  # pylint: disable=import-outside-toplevel
            parser = ui.create_parsers()[0]
            for action in parser._actions:  # pylint: disable=protected-access
                if isinstance(action, argparse._SubParsersAction):  # pylint: disable=protected-access
                    for name, sub in action.choices.items():
                        if name not in STEPS:
                            continue
                        for act in sub._actions:  # pylint: disable=protected-access
                            if act.option_strings and act.nargs == 0 and not isinstance(
                                    act, (argparse._HelpAction, argparse._CountAction)):  # pylint: disable=protected-access
                                flags.setdefault(name, []).append(max(act.option_strings, key=len))
        except Exception:  # pylint: disable=broad-except
            flags = {}
        _EXTRA_FLAGS = flags
    return _EXTRA_FLAGS


def step_of(op):
    """The workflow step an op would complete if it succeeded (None for
    read-only commands and load)."""
    if "+" in op:
        op = op.split("+", 1)[0]
    if op in STEPS:
        return op
    if op in ("rise-offgrid", "rise-absent"):
        return "rise"
    if op in ("recession-offgrid", "recession-absent"):
        return "recession"
    if op in ("classify-badargs", "classify-other"):
        return "classify"
    if op in ("grid-badargs", "set-zeta-grid-other"):
        return "set-zeta-grid"
    if op == "set-curvature-other":
        return "set-curvature"
    return None


# ---------------------------------------------------------------------------
# executing one op, with or without a fault
# ---------------------------------------------------------------------------

def _subst(argv, db):
    return [a.replace("{db}", db) for a in argv]


SIDECARS = ("-journal", "-wal", "-shm")


def _clean_journal(db):
    for suffix in SIDECARS:
        try:
            os.remove(db + suffix)
        except FileNotFoundError:
            pass
    if os.path.isdir(os.path.dirname(db)):
        for suffix in _sidecars_of(db):
            os.remove(db + suffix)


def _sidecars_of(path):
    """Every file that sits next to `path` and is named after it (journal, WAL,
    shared memory, or anything a changed tree may keep there)."""
    directory, base = os.path.dirname(path), os.path.basename(path)
    out = []
    for name in sorted(os.listdir(directory)):
        if name.startswith(base) and name != base and os.path.isfile(os.path.join(directory, name)):
            out.append(name[len(base):])
    return out


def _copy_with_sidecars(src, dst):
    """Byte copy of a dataset file together with whatever sits next to it under
    its name (a hot journal, an inert one, a WAL, a sidecar a changed tree uses)."""
    for suffix in _sidecars_of(dst):
        os.remove(dst + suffix)
    shutil.copyfile(src, dst)
    for suffix in _sidecars_of(src):
        shutil.copyfile(src + suffix, dst + suffix)


class Exec:
    """Outcome of executing one op on the subject file."""

    __slots__ = ("outcome", "killed", "fired", "calls", "callbacks", "syscalls", "rows", "sql_log", "sys_log",
                 "raw_modified", "journal_left", "lock_held", "peer_outcome", "peer_blocked")

    def __init__(self):
        self.outcome = None
        self.killed = False
        self.fired = False
        self.calls = self.callbacks = self.syscalls = self.rows = 0
        self.sql_log = []
        self.sys_log = []
        self.raw_modified = None
        self.journal_left = None
        self.lock_held = None
        self.peer_outcome = None
        self.peer_blocked = False


_ZOMBIES = []


def reap_zombies(keep_latest=0):
    """Reap killed children that were deliberately left unreaped."""
    while len(_ZOMBIES) > keep_latest:
        pid = _ZOMBIES.pop(0)
        try:
            os.waitpid(pid, 0)
        except ChildProcessError:
            pass


SIGNALS = {"KILL": signal.SIGKILL, "TERM": signal.SIGTERM, "INT": signal.SIGINT, "HUP": signal.SIGHUP}


def _kill_self(sig=signal.SIGKILL):
    os.kill(os.getpid(), sig)


def _make_plan(knobs, fault, record=False):
    plan = sqlseam.Plan(cache_pages=knobs.get("cache_pages"), b_every=knobs.get("b_every"),
                        record_sql=record, journal_mode=knobs.get("_journal_mode"))
    if fault:
        if fault["layer"] == "A":
            if fault.get("kind", "raise") == "kill":
                at = fault["at"]

                sig = SIGNALS[fault.get("signal", "KILL")]

                def on_call(_kind, _sql, index, at=at, sig=sig):
                    if index == at:
                        plan.fired = ("A", index, "signal")      # matters only if the signal is survived
                        _kill_self(sig)
                plan.on_call = on_call
            else:
                plan.a_at = fault["at"]
                plan.a_exc = fault.get("exc", "OperationalError")
        elif fault["layer"] == "B":
            plan.b_at = fault["at"]
        elif fault["layer"] == "R":
            plan.r_at = fault["at"]
    return plan


def execute(db, argv, knobs, fault, directory, record=False, count_sys=False):
    """Run one command against `db`.  fault is None or a fault plan dict."""
    ex = Exec()
    reap_zombies(keep_latest=1 if not (fault and fault.get("leave_zombie")) else 0)
    argv = _subst(argv, os.path.relpath(db) if knobs.get("_relative_paths") else db)
    layer = fault["layer"] if fault else None
    needs_fork = bool(fault) and (
        (layer == "C" and fault["kind"].startswith("kill")) or (layer == "A" and fault.get("kind") == "kill"))
    peer = None
    lock_hook = None
    peer_proc = None
    if layer == "P":
        peer_proc = PeerProcess()
        peer_argv = _subst(fault["peer_argv"], os.path.relpath(db) if knobs.get("_relative_paths") else db)

        def lock_hook(_kind, _sql, index, at=fault["at"]):
            if index == at and peer_proc.outcome is None and not peer_proc.blocked:
                peer_proc.run(peer_argv, {"cache_pages": knobs.get("cache_pages")})
                ex.fired = True
    if layer == "L":
        peer = sqlseam.plain_connect(db)

        def take():
            try:
                if fault["lock"] == "shared":
                    cur = peer.execute("SELECT name FROM sqlite_master")
                    cur.fetchone()
                    ex.lock_held = cur
                elif fault["lock"] == "reserved":
                    peer.execute("BEGIN IMMEDIATE")
                else:
                    peer.execute("BEGIN EXCLUSIVE")
                return True
            except Exception:  # pylint: disable=broad-except
                return False

        def release():
            try:
                if ex.lock_held is not None:
                    ex.lock_held.close()
                    ex.lock_held = None
                peer.rollback()
            except Exception:  # pylint: disable=broad-except
                pass

        acquire_at, release_at = fault.get("acquire_at"), fault.get("release_at")
        if acquire_at is None:
            if not take():
                peer.close()
                peer = None
        if peer is not None and (acquire_at is not None or release_at is not None):
            def lock_hook(_kind, _sql, index):
                # the peer acts between two statements of the step
                if acquire_at is not None and index == acquire_at:
                    ex.fired = take() or ex.fired
                if release_at is not None and index == release_at:
                    release()
    shim = sysfault.available()
    try:
        if needs_fork:
            r, w = os.pipe()
            sys.stdout.flush()
            sys.stderr.flush()
            pid = os.fork()
            if pid == 0:
                try:
                    os.close(r)
                    plan = sqlseam.set_plan(_make_plan(knobs, fault))
                    if layer == "C":
                        sysfault.arm(directory, fault["at"], fault["kind"], SIGNALS[fault.get("signal", "KILL")])
                    # the harness (like any shell) starts the command with default signal dispositions
                    for _s in (signal.SIGTERM, signal.SIGHUP):
                        signal.signal(_s, signal.SIG_DFL)
                    signal.signal(signal.SIGINT, signal.default_int_handler)
                    if shim:
                        sysfault.virtual_sleep(True)
                    out = cli.run(argv)
                    if layer == "C":
                        sysfault.disarm()
                    msg = json.dumps({"outcome": out.as_dict(), "calls": plan.calls,
                                      "fired": bool(plan.fired) or (layer == "C" and sysfault.fired() >= 0)})
                    os.write(w, msg.encode())
                finally:
                    os._exit(0)  # pylint: disable=protected-access
            os.close(w)
            chunks = []
            while True:
                b = os.read(r, 65536)
                if not b:
                    break
                chunks.append(b)
            os.close(r)
            if fault.get("leave_zombie"):
                # the killed process is not reaped yet (its parent -- a shell script, a job
                # scheduler -- has not waited for it): its pid still exists while the next
                # command runs.  Learn how it ended without reaping it.
                info = os.waitid(os.P_PID, pid, os.WEXITED | os.WNOWAIT)
                status = (info.si_status if info.si_code in (os.CLD_KILLED, os.CLD_DUMPED)
                          else info.si_status << 8)
                _ZOMBIES.append(pid)
            else:
                _, status = os.waitpid(pid, 0)
            if os.WIFSIGNALED(status):
                ex.killed = True
                ex.fired = True
            else:
                info = json.loads(b"".join(chunks).decode() or "{}")
                o = info.get("outcome") or {"status": 1, "exc_type": "ChildLost", "exc_msg": "", "frame": "harness"}
                ex.outcome = cli.Outcome(o["status"], o["exc_type"], o["exc_msg"], o["frame"])
                ex.calls = info.get("calls", 0)
                ex.fired = bool(info.get("fired"))
        else:
            plan = sqlseam.set_plan(_make_plan(knobs, fault, record))
            if lock_hook is not None:
                plan.on_call = lock_hook
            if shim:
                # C-level sleeps (sqlite3_sleep in backup / busy loops) cost no wall time; a step that
                # keeps waiting for the peer's lock sees it go away after 200 simulated sleeps, so that
                # the single-threaded simulation cannot deadlock on "wait until the other process is done"
                def waited(_count):
                    if peer is not None and layer == "L":
                        release()
                        ex.sql_log.append(("peer", "released the lock after the step had waited"))
                sysfault.virtual_sleep(True, 200, waited if layer == "L" else None)
            armed = False
            if shim and (count_sys or layer == "C"):
                if layer == "C":
                    sysfault.arm(directory, fault["at"], fault["kind"])
                else:
                    sysfault.arm(directory, -1, None)
                armed = True
            try:
                ex.outcome = cli.run(argv)
            finally:
                if shim:
                    sysfault.virtual_sleep(False)
                if armed:
                    ex.syscalls = sysfault.count()
                    if layer == "C":
                        ex.fired = sysfault.fired() >= 0
                    if count_sys:
                        ex.sys_log = sysfault.call_log()
                    sysfault.disarm()
            ex.calls = plan.calls
            ex.callbacks = plan.callbacks
            ex.rows = plan.rows
            ex.sql_log = plan.sql_log
            if layer in ("A", "B", "R"):
                ex.fired = plan.fired is not None
            elif layer == "L":
                ex.fired = (peer is not None) if fault.get("acquire_at") is None else ex.fired
    finally:
        sqlseam.set_plan(None)
        if peer_proc is not None:
            ex.peer_outcome = peer_proc.outcome
            ex.peer_blocked = peer_proc.blocked
            peer_proc.close()
        if peer is not None:
            try:
                ex.lock_held = None
                peer.rollback()
            except Exception:  # pylint: disable=broad-except
                pass
            peer.close()
    return ex


# ---------------------------------------------------------------------------
# a trial: dataset + knobs + history, with invariants checked after every op
# ---------------------------------------------------------------------------

# dataset files as older releases (or an interrupted upgrade) left them: tables absent from the file
LEGACY_LAYOUTS = {
    "0.3.0": ("curvature", "evapotranspiration", "evapotranspiration_staging"),
    "no-curvature": ("curvature",),
    "no-rise-tables": ("rising_interval_zeta", "rising_interval"),
    "no-recession-tables": ("recession_interval_zeta", "recession_interval"),
    "no-grid-tables": ("discrete_zeta", "zeta_grid"),
    "no-pairing-table": ("zeta_interval_storm",),
}


class Violation(Exception):
    def __init__(self, cls, detail):
        super().__init__(cls)
        self.cls = cls
        self.detail = detail


LAYER_KINDS = {
    "A": ["raise:OperationalError", "raise:OperationalError", "raise:IntegrityError", "raise:MemoryError",
          "raise:KeyboardInterrupt", "kill", "kill"],
    "B": ["interrupt"],
    "R": ["read_error"],
    "C": ["eio", "enospc", "short", "kill_before", "kill_after", "kill_before", "kill_after", "kill_before",
          "kill_after", "kill_mid"],
    "L": ["shared", "reserved", "exclusive"],
}


def bias_positions(sql_log):
    """Statement indices where in-flight state is richest (DESIGN 3.3)."""
    pts = set()
    n = len(sql_log)
    if n:
        pts.update({n - 1, max(0, n - 2)})                         # COMMIT and the statement before it
    seen_flags = 0
    last_tbl = None
    for i, (kind, sql) in enumerate(sql_log):
        words = sql.split()
        tbl = words[2] if len(words) >= 3 and words[0] == "INSERT" else None
        if tbl == "grid_time_flags":
            seen_flags += 1
            if seen_flags >= 2:
                pts.update({i, i + 1})                             # stretch >= 2 of classify
        if tbl and last_tbl and tbl != last_tbl and tbl.endswith("_zeta"):
            pts.update({i - 1, i})                                 # boundary between the two insert loops
        if kind == "executemany":
            pts.add(i)
        if tbl:
            last_tbl = tbl
    return sorted(p for p in pts if 0 <= p < n)


class Trial:
    """One simulated run."""

    def __init__(self, seed, directory, spec=None, knobs=None, fault_rate=None, layers=None):
        self.seed = seed
        self.rng = random.Random(seed)
        # where the dataset lives: a plain absolute path, a directory and file name with spaces and
        # non-ASCII characters, or a path relative to the working directory (decided by the seed, not
        # part of the PRNG stream that draws everything else)
        style = ("plain", "plain", "odd-names", "relative")[seed % 4]
        if style == "odd-names":
            directory = os.path.join(directory, "field data \u00e9t\u00e9 2013")
            os.makedirs(directory, exist_ok=True)
        self.path_style = style
        self.dir = directory
        self.db = os.path.join(directory, "subject.sqlite")
        self.twin = os.path.join(directory, "twin.sqlite")
        self.base = os.path.join(directory, "loaded.sqlite")
        self.canon_db = os.path.join(directory, "canon.sqlite")
        self.spec = spec
        self.knobs = knobs
        self.fault_rate = fault_rate
        self.layers = layers
        self.ops = []              # executed ops, replay format
        self.log = []              # event log (deterministic)
        self.stats = collections.Counter()
        self.distinct = set()
        self.acked = {}            # step -> argv at the time it completed
        self.ack_count = collections.Counter()
        self.canon_cache = {}
        self.current = None        # Dump of the subject file
        self.pending_retry = None
        self.load_argv = None
        self.static_cache = None
        self.states_seen = set()
        self.view = self.db
        self.deferred = False
        self.last_twin_failed = False
        self.other_process_seed = None
        self.concurrent_peers = True

    # -- helpers ----------------------------------------------------------
    def logline(self, *parts):
        self.log.append(" ".join(str(p) for p in parts))

    def dump(self, path):
        return dump_mod.dump(path, self.static_cache)

    def observe(self, defer):
        """Dump of the subject.  With defer=True the subject file is left
        exactly as the kill left it (hot journal and all): a byte copy is
        recovered and dumped instead, so that the *next spowtd command* is the
        one that performs recovery -- possibly under a fault of its own."""
        if not defer:
            self.view = self.db
            return self.dump(self.db)
        probe = os.path.join(self.dir, "probe.sqlite")
        _copy_with_sidecars(self.db, probe)
        self.view = probe
        return self.dump(probe)

    # -- the user's environment --------------------------------------------
    USER_DIRS = {"HOME": "home", "XDG_CONFIG_HOME": "home/.config", "XDG_CACHE_HOME": "home/.cache",
                 "XDG_DATA_HOME": "home/.local/share", "TMPDIR": "tmp"}

    def enter_user_environment(self):
        """HOME, the XDG directories and TMPDIR of the simulated user live inside
        the run directory: they persist from command to command of this history
        (as they would for a real user), are invisible to other histories, and are
        snapshotted around reference runs, which must not leave anything there."""
        self.saved_env = {k: os.environ.get(k) for k in self.USER_DIRS}
        for var, rel in self.USER_DIRS.items():
            path = os.path.join(self.dir, rel)
            os.makedirs(path, exist_ok=True)
            os.environ[var] = path
        import tempfile  # pylint: disable=import-outside-toplevel
        tempfile.tempdir = None

    def leave_user_environment(self):
        for var, value in getattr(self, "saved_env", {}).items():
            if value is None:
                os.environ.pop(var, None)
            else:
                os.environ[var] = value
        import tempfile  # pylint: disable=import-outside-toplevel
        tempfile.tempdir = None

    def _user_state_paths(self):
        return [os.path.join(self.dir, "home"), os.path.join(self.dir, "tmp")] + (
            [os.path.join(self.dir, "cwd")] if self.path_style != "relative" else [])

    def snapshot_user_state(self):
        """Copy of the user's directories, or None when they are all empty (the usual case)."""
        if not any(files for p in self._user_state_paths() for _r, _d, files in os.walk(p)):
            return None
        snap = os.path.join(self.dir, "userstate.snapshot")
        shutil.rmtree(snap, ignore_errors=True)
        for i, p in enumerate(self._user_state_paths()):
            shutil.copytree(p, os.path.join(snap, str(i)), symlinks=True)
        return snap

    def restore_user_state(self, snap):
        for i, p in enumerate(self._user_state_paths()):
            shutil.rmtree(p, ignore_errors=True)
            if snap is not None:
                shutil.copytree(os.path.join(snap, str(i)), p, symlinks=True)
            else:
                os.makedirs(p, exist_ok=True)
        for rel in self.USER_DIRS.values():
            os.makedirs(os.path.join(self.dir, rel), exist_ok=True)
        if self.path_style != "relative":
            os.chdir(os.path.join(self.dir, "cwd"))

    def check_twin(self, op, argv, twin_ex, post, started_hot):
        """Verdicts that concern the fault-free run alone."""
        t_out = twin_ex.outcome
        index = len(self.ops) - 1
        if post.integrity != "ok" or post.error:
            raise Violation("I1-integrity-after-fault-free-command", {
                "op": op, "op_index": index, "started_on_hot_journal": bool(started_hot),
                "twin": t_out.as_dict(), "integrity": post.integrity[:300], "error": post.error})
        if started_hot:
            self.check_restart_equivalence(op, argv, post)
        step = step_of(op)
        if step is not None and t_out.ok:
            self._check_marker(step, argv, self.twin, {"op": op, "op_index": index, "twin": t_out.as_dict()}, "twin")

    def check_restart_equivalence(self, op, argv, post):
        """R1: a command that starts on the files a kill left behind must see the
        state SQLite's own recovery yields.  `probe.sqlite` is that state (a byte
        copy already recovered through a plain connection by observe()); the
        same command is run on it fault-free and must end where the twin --
        which started on the unrecovered files -- ended."""
        probe = os.path.join(self.dir, "probe.sqlite")
        ref = os.path.join(self.dir, "restartref.sqlite")
        if not os.path.exists(probe):
            return
        _copy_with_sidecars(probe, ref)
        execute(ref, argv, self.knobs, None, self.dir)
        ref_post = self.dump(ref)
        self.stats["R1_restart_equivalence_checked"] += 1
        if ref_post != post:
            raise Violation("R1-command-after-kill-does-not-see-the-recovered-state", {
                "op": op, "op_index": len(self.ops) - 1, "differs": post.diff(ref_post)[:8],
                "integrity": post.integrity[:200]})

    def state_key(self):
        return "".join("1" if s in self.acked else "0" for s in CANON_ORDER)

    def draw_setup(self):
        rng = self.rng
        if self.spec is None:
            self.spec = workload.gen_spec(rng)
        if self.knobs is None:
            self.knobs = workload.gen_knobs(rng, self.spec)
            k = self.knobs
            k["parameters"] = rng.choice(["peatclsm", "spline"])
            k["grid_other_mm"] = rng.choice([x for x in (0.5, 1.0, 2.0, 5.0, 10.0, 0.25, 20.0) if x != k["grid_mm"]])
            k.pop("reference", None)
            # the dataset file may have been written by an older release (README "Revision history": the
            # curvature table and the evapotranspiration series joined the data model in 0.4.0) or lack
            # another result table: every command must still fail or complete as a whole on such a file
            k["legacy_layout"] = rng.choices(
                [None] + sorted(LEGACY_LAYOUTS), weights=[88] + [{"0.3.0": 4, "no-curvature": 4}.get(n, 1)
                                                                 for n in sorted(LEGACY_LAYOUTS)])[0]
            # the reference level is an argument of rise and of recession separately: either, both or
            # neither may be given one (a tree in which one curve's origin leaks into the other's only
            # shows when exactly one of them is)
            k["reference_rise_mm"] = k["reference_recession_mm"] = None
            if self.spec["kind"] == "synthetic":
                jd0 = self.spec["j0"] * self.spec["dt"] / 3600.0

                def on_grid():
                    z_ref = self.spec["z_base"] + rng.uniform(2, 14) * jd0
                    c = rng.random()
                    if c < 0.06:
                        return rng.choice([0.0, -0.0])
                    if c < 0.14:
                        # on the grid only up to rounding, the way a user would type it
                        return float("%.10g" % (round(z_ref / k["grid_mm"]) * k["grid_mm"]))
                    return round(z_ref / k["grid_mm"]) * k["grid_mm"]

                mode = rng.choices(["none", "rise", "recession", "both_same", "both"], weights=[4, 2, 2, 1, 1])[0]
                if mode in ("rise", "both"):
                    k["reference_rise_mm"] = on_grid()
                if mode in ("recession", "both"):
                    k["reference_recession_mm"] = on_grid()
                if mode == "both_same":
                    k["reference_rise_mm"] = k["reference_recession_mm"] = on_grid()
        if self.path_style == "relative":
            self.knobs["_relative_paths"] = True
            os.chdir(self.dir)
        else:
            work = os.path.join(self.dir, "cwd")
            os.makedirs(work, exist_ok=True)
            os.chdir(work)                      # whatever a command drops into "the current directory"
        self.enter_user_environment()
        if self.fault_rate is None:
            self.fault_rate = rng.choice([0.0, 0.3, 0.5, 0.5, 0.7])
        if self.layers is None:
            pool = ["A", "B", "L", "R"] + (["C"] if sysfault.available() else [])
            self.layers = sorted(x for x in pool if rng.random() < 0.75) or ["A"]

    # -- load ---------------------------------------------------------------
    def do_load(self, fault=None):
        self.load_argv = workload.load_argv(self.spec, self.dir)
        for p in (self.db, self.twin, self.base, self.canon_db):
            if os.path.exists(p):
                os.remove(p)
            _clean_journal(p)
        ex = execute(self.db, self.load_argv, dict(self.knobs, cache_pages=None), fault, self.dir)
        self.ops.append({"op": "load", "fault": fault})
        if not os.path.exists(self.db):
            open(self.db, "ab").close()     # killed before SQLite created the file
        self.loaded_ok = (not ex.killed) and ex.outcome.ok
        legacy = self.knobs.get("legacy_layout")
        if legacy and self.loaded_ok:
            con = sqlseam.plain_connect(self.db)
            try:
                for table in LEGACY_LAYOUTS[legacy]:
                    con.execute('DROP TABLE IF EXISTS "%s"' % table)
                con.commit()
            finally:
                con.close()
            self.stats["datasets_in_legacy_layout"] += 1
            self.stats["datasets_in_legacy_layout_" + legacy] += 1
        self.current = dump_mod.dump(self.db)
        if self.spec["kind"] == "field":
            self.static_cache = dump_mod.static_cache_from(self.current)
        _copy_with_sidecars(self.db, self.base)
        self.logline("load", "fault=%s" % json.dumps(fault, sort_keys=True),
                     "killed" if ex.killed else ex.outcome.brief(), self.current.digest)
        self.stats["ops"] += 1
        if ex.killed or not ex.outcome.ok:
            self.stats["load_failed_or_killed"] += 1
        return ex

    # -- twin ---------------------------------------------------------------
    def run_twin(self, argv):
        # hot (or inert) journal included: the twin starts from exactly the same files
        _copy_with_sidecars(self.db, self.twin)
        snap = self.snapshot_user_state() if hasattr(self, "saved_env") else None
        ex = execute(self.twin, argv, self.knobs, None, self.dir, record=True, count_sys=True)
        post = self.dump(self.twin)
        if hasattr(self, "saved_env"):
            self.restore_user_state(snap)       # the reference run leaves nothing in the user's directories
        return ex, post

    # -- fault plan ---------------------------------------------------------
    def draw_fault(self, twin_ex, op=None):
        rng = self.rng
        layers = [l for l in self.layers]
        if not layers:
            return None
        if self.concurrent_peers and op in STEPS and twin_ex.calls > 0 and rng.random() < 0.04:
            return self.draw_peer(op, twin_ex, rng)
        layer = rng.choice(layers)
        if layer == "A":
            n = twin_ex.calls
            if n <= 0:
                return None
            bias = bias_positions(twin_ex.sql_log)
            at = rng.choice(bias) if bias and rng.random() < 0.5 else rng.randrange(n)
            kind = rng.choice(LAYER_KINDS["A"])
            if kind == "kill":
                return {"layer": "A", "kind": "kill", "at": at, "of": n,
                        "signal": rng.choice(["KILL", "KILL", "KILL", "TERM", "INT", "HUP"]),
                        "leave_zombie": rng.random() < 0.3}
            return {"layer": "A", "kind": "raise", "exc": kind.split(":")[1], "at": at, "of": n}
        if layer == "B":
            n = twin_ex.callbacks
            if n <= 0:
                return None
            return {"layer": "B", "at": rng.randrange(n), "of": n, "every": self.knobs.get("b_every")}
        if layer == "R":
            n = twin_ex.rows
            if n <= 0:
                return None
            at = rng.randrange(n) if rng.random() < 0.6 else rng.randrange(max(0, n - 40), n)
            return {"layer": "R", "at": at, "of": n}
        if layer == "C":
            n = twin_ex.syscalls
            if n <= 0:
                return None
            # bias toward the tail: the commit sequence (journal sync, page writes, sync, unlink)
            at = rng.randrange(max(0, n - 12), n) if rng.random() < 0.6 else rng.randrange(n)
            plan = {"layer": "C", "kind": rng.choice(LAYER_KINDS["C"]), "at": at, "of": n}
            if plan["kind"].startswith("kill"):
                plan["signal"] = rng.choice(["KILL", "KILL", "KILL", "TERM", "INT", "HUP"])
                plan["leave_zombie"] = rng.random() < 0.3
            return plan
        plan = {"layer": "L", "lock": rng.choice(LAYER_KINDS["L"])}
        n = twin_ex.calls
        timing = rng.choice(["whole", "whole", "released", "late"]) if n > 1 else "whole"
        if timing == "released":
            # contention that goes away mid-step; positions past the fault-free count land inside
            # whatever extra calls a retry loop makes while the lock is held
            plan["release_at"] = rng.randrange(1, n + 10)
        elif timing == "late":
            plan["lock"] = "shared"
            plan["acquire_at"] = rng.randrange(1, n)           # a reader arrives mid-step: BUSY at COMMIT
        return plan

    def draw_peer(self, op, twin_ex, rng):
        """Another spowtd process runs a command on the same file while `op` is
        between two of its SQL API calls (biased to the first write and to the
        commit)."""
        others = [s for s in STEPS if s != op]
        peer_op = rng.choice(others + ["simulate-rise", op])
        n = twin_ex.calls
        at = rng.choice([0, 1, n - 1, n - 1, rng.randrange(n)])
        return {"layer": "P", "at": max(0, at), "of": n, "peer_op": peer_op,
                "peer_argv": op_argv(peer_op, self.knobs, self.load_argv)}

    # -- one op ---------------------------------------------------------------
    def do_op(self, op, argv, fault="draw", expect=None, defer=None, twin=None):
        """Execute one op with invariants.  fault: "draw", None or a plan dict."""
        step = step_of(op)
        pre = self.current
        jpath = self.db + "-journal"
        started_hot = os.path.exists(jpath) and os.path.getsize(jpath) > 512 and getattr(self, "deferred", False)
        # the op is on record before anything can be reported about it (twin-stage verdicts included)
        rec = {"op": op, "argv": argv, "fault": None}
        self.ops.append(rec)
        if expect is not None:
            rec["retry_of_previous"] = True
        if twin is None:
            twin_ex, post = self.run_twin(argv)
            self.stats["logical_statements_fault_free"] += twin_ex.calls
            self.stats["logical_vm_callbacks_fault_free"] += twin_ex.callbacks
            self.stats["logical_syscalls_fault_free"] += twin_ex.syscalls
            self.check_twin(op, argv, twin_ex, post, started_hot)
        else:
            twin_ex, post = twin      # sweeps: same pre-state files, same op => same twin (already checked)
        t_out = twin_ex.outcome
        self.last_twin_failed = not t_out.ok
        if fault == "draw":
            fault = self.draw_fault(twin_ex, op) if self.rng.random() < self.fault_rate else None
        pre_raw = None
        if fault and fault["layer"] in ("A", "C") and str(fault.get("kind", "")).startswith("kill"):
            with open(self.db, "rb") as f:
                pre_raw = f.read()
        ex = execute(self.db, argv, self.knobs, fault, self.dir)
        if ex.killed:
            with open(self.db, "rb") as f:
                ex.raw_modified = f.read() != pre_raw
            jpath = self.db + "-journal"
            ex.journal_left = os.path.exists(jpath) and os.path.getsize(jpath) > 0
        if defer is None:
            defer = bool(ex.killed and ex.journal_left and self.rng.random() < 0.5)
        defer = bool(defer and ex.killed)
        self.deferred = defer
        after = self.observe(defer)
        self.current = after
        rec["fault"] = fault
        if defer:
            rec["defer_recovery"] = True
            self.stats["probe_recovery_left_to_next_command"] += 1
        if started_hot:
            self.stats["probe_op_started_on_hot_journal"] += 1
            if ex.fired or ex.killed:
                self.stats["probe_fault_in_op_that_recovers_hot_journal"] += 1
        self.stats["ops"] += 1
        s_out = ex.outcome
        where = "pre" if after == pre else ("post" if after == post else "THIRD")
        if after == pre and after == post:
            where = "pre=post"
        self.logline(op, "fault=%s" % json.dumps(fault, sort_keys=True), "fired=%s" % ex.fired,
                     "killed" if ex.killed else s_out.brief(), "twin=%s" % t_out.brief(),
                     "state=%s" % where, after.digest)
        self._count(op, step, fault, ex, twin_ex, where, pre, post)
        detail = {"op": op, "op_index": len(self.ops) - 1, "fault": fault, "fired": ex.fired,
                  "subject": "killed" if ex.killed else s_out.as_dict(), "twin": t_out.as_dict(),
                  "state": where, "integrity": after.integrity}
        if op == "load-again" and t_out.ok:
            # Only possible when the first load never got as far as creating tables.  Loading is not one
            # of C20's steps ("a step after loading") and is not atomic by design (the schema script
            # commits): nothing is demanded of it.  Whatever it leaves is the new starting point.
            self.stats["load_again_succeeded_or_attempted_on_empty_file"] += 1
            self.loaded_ok = (not ex.killed) and s_out.ok
            self.deferred = False
            self.current = self.observe(False)
            _copy_with_sidecars(self.db, self.base)
            self.canon_cache.clear()
            self.acked.clear()
            self.ack_count.clear()
            return ex, None
        if fault and fault.get("layer") == "P":
            return self._after_concurrent_peer(op, step, argv, fault, ex, after, detail)
        # I1: all-or-nothing
        if after.integrity != "ok" or after.error:
            raise Violation("I1-integrity", dict(detail, error=after.error))
        if where == "THIRD":
            raise Violation("I1-third-state", dict(detail, differs_from_pre=after.diff(pre)[:8],
                                                   differs_from_post=after.diff(post)[:8]))
        # I3: failed attempts and read-only commands leave no trace
        no_trace = (not t_out.ok) or op in READ_ONLY
        if no_trace and post != pre:
            raise Violation("I3-fault-free-failed-or-read-only-attempt-left-trace",
                            dict(detail, changed=post.diff(pre)[:8]))
        if no_trace and after != pre:
            raise Violation("I3-failed-or-read-only-attempt-left-trace", dict(detail, changed=after.diff(pre)[:8]))
        # fault-free (or fault never reached): the step is a deterministic function of the file
        if not ex.fired and not ex.killed:
            if s_out.ok != t_out.ok:
                raise Violation("determinism-outcome-differs-from-twin", detail)
            if after != post:
                raise Violation("determinism-state-differs-from-twin", dict(detail, changed=after.diff(post)[:8]))
        # I2: acknowledged => durable and complete
        completed = False
        if step is not None:
            if not ex.killed and s_out.ok:
                if after != post:
                    raise Violation("I2-acknowledged-but-not-the-complete-result",
                                    dict(detail, changed=after.diff(post)[:8]))
                completed = True
            elif after == post and post != pre:
                completed = True        # killed or failed after the commit point
            if completed and step in self.acked and post != pre:
                self._check_repeated_completion(step, argv, after, detail)
                # A step that is allowed to run again may legitimately discard what was built on its
                # previous result -- completely.  Such dependants are simply no longer "completed".
                for dep in [d for d in list(self.acked) if step in PREREQ[d]]:
                    if all(after.counts.get(t, 0) == 0 for t in dump_mod.STEP_TABLES[dep]):
                        del self.acked[dep]
                        self.ack_count[dep] = 0
                        self.stats["dependants_discarded_by_a_repeated_step"] += 1
            if completed:
                self._check_marker(step, argv, self.view, detail, "subject")
                self.acked[step] = argv
                self.ack_count[step] += 1
                self.stats["steps_completed"] += 1
        # markers of acknowledged steps never disappear
        if self.acked:
            present = dump_mod.markers(self.view)
            for st in self.acked:
                if present.get(st) is None:
                    raise Violation("I2-marker-of-acknowledged-step-disappeared", dict(detail, step=st))
        # I4: expectation attached by a previous faulted attempt
        if expect is not None:
            if (not ex.killed) and s_out.ok != expect["ok"]:
                raise Violation("I4-retry-outcome-differs", dict(detail, expected_ok=expect["ok"]))
            if after.digest != expect["post"]:
                raise Violation("I4-retry-does-not-reach-the-complete-result", dict(detail, expected=expect["post"]))
            self.stats["I4_retries_checked"] += 1
        # I5: state is a function of the set of completed steps
        self._check_canonical(detail)
        self.states_seen.add(self.state_key())
        # schedule an immediate fault-free retry after a fired fault that left the step undone
        retry = None
        if step is not None and (ex.fired or ex.killed) and not completed and after == pre:
            retry = {"ok": t_out.ok, "post": post.digest}
        return ex, retry

    def _after_concurrent_peer(self, op, step, argv, fault, ex, after, detail):
        """Two processes worked on the file at once (the step under simulation and
        a peer command started at one of its SQL API calls).  SQLite's locking
        must serialise them or refuse one; whatever happened, the file must be
        sound and must hold exactly the results of the commands that reported
        success (independent steps commute, so that state is the canonical one)."""
        st = self.stats
        peer_op = fault["peer_op"]
        peer_step = step_of(peer_op)
        p_out = ex.peer_outcome
        detail = dict(detail, peer_op=peer_op, peer=p_out, peer_blocked=ex.peer_blocked)
        st["concurrent_peer_ops"] += 1
        if ex.peer_blocked:
            st["concurrent_peer_blocked"] += 1
        if after.integrity != "ok" or after.error:
            raise Violation("I1-integrity-after-concurrent-commands", dict(detail, error=after.error))
        completed = []
        if step is not None and ex.outcome is not None and ex.outcome.ok:
            completed.append((step, argv))
        if peer_step is not None and p_out is not None and p_out.get("status") == 0:
            completed.append((peer_step, fault["peer_argv"]))
            st["concurrent_peer_completed_its_step"] += 1
        if len(completed) == 2:
            st["concurrent_both_commands_succeeded"] += 1
        for cstep, cargv in completed:
            self._check_marker(cstep, cargv, self.view, detail, "subject")
            self.acked[cstep] = cargv
            self.ack_count[cstep] += 1
            st["steps_completed"] += 1
        if self.acked:
            present = dump_mod.markers(self.view)
            for s_ in self.acked:
                if present.get(s_) is None:
                    raise Violation("I2-marker-of-acknowledged-step-disappeared", dict(detail, step=s_))
        self._check_canonical(detail)
        self.states_seen.add(self.state_key())
        return ex, None

    def _check_repeated_completion(self, step, argv, after, detail):
        """A step that completes although it had completed before (a changed tree
        may allow that): what it leaves in ITS OWN tables must be the complete
        result of the step -- i.e. what the same command leaves there when run on
        the canonical file of the other completed steps -- not a blend with its
        earlier result."""
        others = tuple((s, tuple(self.acked[s])) for s in CANON_ORDER if s in self.acked and s != step)
        ref = os.path.join(self.dir, "repeatref.sqlite")
        _copy_with_sidecars(self.base, ref)
        for s, a in others:
            if step in PREREQ[s]:
                continue                      # dependants of the repeated step cannot be rebuilt before it
            ex = execute(ref, list(a), dict(self.knobs, cache_pages=None), None, self.dir)
            if not ex.outcome.ok:
                return                        # not comparable; nothing is claimed
        ex = execute(ref, list(argv), dict(self.knobs, cache_pages=None), None, self.dir)
        if not ex.outcome.ok:
            return
        fresh = self.dump(ref)
        self.stats["repeated_completions_checked"] += 1
        differing = [t for t in dump_mod.STEP_TABLES[step] if after.tables.get(t) != fresh.tables.get(t)]
        if differing:
            raise Violation("I2-repeated-step-leaves-a-blend-not-the-complete-result",
                            dict(detail, step=step, tables=differing,
                                 rows_here={t: after.counts.get(t) for t in differing},
                                 rows_fresh={t: fresh.counts.get(t) for t in differing}))

    def _check_marker(self, step, argv, path, detail, who):
        m = dump_mod.markers(path).get(step)
        if m is None:
            raise Violation("I2-acknowledged-step-left-no-marker", dict(detail, who=who, step=step))
        if step == "classify":
            want = [float(argv[argv.index("-s") + 1]), float(argv[argv.index("-j") + 1])]
            if m["thresholds"] != want or m["flags"] != m["expected_flags"]:
                raise Violation("I2-marker-incomplete", dict(detail, who=who, marker=m, want=want))
        elif step == "set-zeta-grid":
            if m["step"] != float(argv[argv.index("-d") + 1]):
                raise Violation("I2-marker-incomplete", dict(detail, who=who, marker=m))
        elif step == "set-curvature":
            if m["value"] != float(argv[2]):
                raise Violation("I2-marker-incomplete", dict(detail, who=who, marker=m))
        else:
            if not (m["intervals"] and m["zeta"]):
                raise Violation("I2-marker-incomplete", dict(detail, who=who, marker=m))

    def _check_canonical(self, detail):
        if any(c > 1 for c in self.ack_count.values()):
            self.stats["I5_skipped_step_completed_twice"] += 1
            return
        key = tuple((s, tuple(self.acked[s])) for s in CANON_ORDER if s in self.acked)
        if key not in self.canon_cache:
            _copy_with_sidecars(self.base, self.canon_db)
            snap = self.snapshot_user_state() if hasattr(self, "saved_env") else None
            if hasattr(self, "saved_env"):
                self.restore_user_state(None)   # the canonical history is a new user's
            failed = None
            for s, argv in key:
                ex = execute(self.canon_db, list(argv), dict(self.knobs, cache_pages=None), None, self.dir)
                if not ex.outcome.ok:
                    failed = (s, ex.outcome.as_dict())
                    break
            self.canon_cache[key] = (self.dump(self.canon_db), failed)
            if hasattr(self, "saved_env"):
                self.restore_user_state(snap)
            self.stats["canonical_states_built"] += 1
        canon, failed = self.canon_cache[key]
        if failed is not None:
            raise Violation("I5-steps-fail-in-canonical-order", dict(detail, failed=failed, completed=[k[0] for k in key]))
        if self.current != canon:
            raise Violation("I5-content-depends-on-order-or-failed-attempts",
                            dict(detail, completed=[k[0] for k in key], differs=self.current.diff(canon)[:8]))
        self.stats["I5_checked"] += 1

    def _count(self, op, step, fault, ex, twin_ex, where, pre, post):
        st = self.stats
        if fault is None:
            st["ops_fault_free"] += 1
        else:
            layer = fault["layer"]
            kind = fault.get("kind") or fault.get("lock") or ("concurrent_" + fault["peer_op"] if layer == "P" else ("read_error" if layer == "R" else "interrupt"))
            if layer == "L" and fault.get("release_at") is not None:
                kind += "_released_midstep"
            if layer == "L" and fault.get("acquire_at") is not None:
                kind += "_acquired_midstep"
            if str(kind).startswith("kill") and fault.get("signal", "KILL") != "KILL":
                kind = "%s_SIG%s" % (kind, fault["signal"])
            st["fault_configured_%s_%s" % (layer, kind)] += 1
            if ex.fired or ex.killed:
                st["fault_fired_%s_%s" % (layer, kind)] += 1
                phase = "mid"
                if layer in ("A", "B", "C", "R") and fault.get("of"):
                    frac = fault["at"] / float(fault["of"])
                    phase = "early" if frac < 0.34 else ("mid" if frac < 0.67 else "late")
                self.distinct.add("%s|%s|%s:%s|%s|%s" % (self.state_key(), op, layer, kind, phase, where))
                if ex.killed:
                    st["kills"] += 1
                    if ex.raw_modified:
                        st["probe_kill_with_file_modified_on_disk"] += 1
                    if ex.journal_left:
                        st["probe_kill_left_journal"] += 1
                    if ex.raw_modified and where in ("pre", "pre=post"):
                        st["probe_hot_journal_rolled_back_modified_file"] += 1
                    if layer == "C" and twin_ex.sys_log and fault["at"] < len(twin_ex.sys_log):
                        log = twin_ex.sys_log
                        k = fault["at"]
                        here = log[k][0] + log[k][1]
                        st["kill_at_" + here] += 1
                        nxt = (log[k + 1][0] + log[k + 1][1]) if k + 1 < len(log) else ""
                        if here == "pd" and nxt == "pd" and fault["kind"] == "kill_after":
                            st["probe_kill_between_two_db_page_writes"] += 1
                        if here == "uj" and fault["kind"] == "kill_after":
                            st["probe_kill_after_journal_unlink"] += 1
                    if where == "post" and post != pre:
                        st["probe_kill_after_commit_point"] += 1
                else:
                    if layer == "L" and ex.outcome is not None and not ex.outcome.ok:
                        st["probe_lock_made_step_fail"] += 1
                    if not ex.outcome.ok and where == "post" and post != pre:
                        st["probe_error_after_commit_point"] += 1
                    if ex.outcome.ok and layer == "C":
                        st["probe_fault_tolerated_step_succeeded"] += 1
                if layer == "B" and twin_ex.sql_log:
                    st["probe_interrupt_inside_statement"] += 1
                if layer == "A" and twin_ex.sql_log and fault["at"] < len(twin_ex.sql_log):
                    sql = twin_ex.sql_log[fault["at"]][1]
                    if sql.startswith("COMMIT"):
                        st["probe_fault_at_commit_call"] += 1
                    if "_zeta" in sql and step in ("rise", "recession"):
                        st["probe_fault_in_second_insert_loop"] += 1
                    if step == "classify":
                        flags_before = sum(1 for _k, s in twin_ex.sql_log[:fault["at"] + 1] if "grid_time_flags" in s)
                        if flags_before >= 2:
                            st["probe_fault_in_stretch_2plus_of_classify"] += 1
            else:
                st["fault_not_reached"] += 1
        if twin_ex.sys_log and self.knobs.get("cache_pages") and step is not None:
            log = twin_ex.sys_log
            # a database-page write before the journal is finalised = cache spill mid-transaction
            first_db = next((i for i, e in enumerate(log) if e[0] == "p" and e[1] == "d"), None)
            last_j = max((i for i, e in enumerate(log) if e[0] == "p" and e[1] == "j"), default=None)
            if first_db is not None and last_j is not None and first_db < last_j:
                st["probe_cache_spilled_before_commit"] += 1
        if step is not None and twin_ex.outcome.ok:
            st["twin_ok_%s" % step] += 1
        if twin_ex.outcome is not None and not twin_ex.outcome.ok:
            st["failing_attempts"] += 1

    # -- history generation -------------------------------------------------
    def next_op(self, position, length):
        rng = self.rng
        todo = [s for s in STEPS if s not in self.acked]
        ready = [s for s in todo if all(p in self.acked for p in PREREQ[s])]
        c = rng.random()
        flags = extra_flags()
        if flags and rng.random() < 0.15:
            # an option this machinery has never heard of: try it on a step, with the same or other arguments
            name = rng.choice(sorted(flags))
            variant = rng.choice([name, name + "-other"] if name in ("classify", "set-zeta-grid", "set-curvature") else [name])
            return variant + "+" + rng.choice(flags[name])
        if todo and c < 0.58:
            if ready and rng.random() < 0.8:
                return rng.choice(ready)
            return rng.choice(todo)
        if c < 0.70 and self.acked:
            return rng.choice(sorted(self.acked))          # repeated attempt
        if c < 0.80:
            return rng.choice(FAILING_VARIANTS)
        if c < 0.97:
            choices = [o for o in READ_ONLY if o != "simulate-recession"]
            if rng.random() < 0.05:
                return "simulate-recession"
            return rng.choice(choices)
        return "load-again" if getattr(self, "loaded_ok", True) else "simulate-rise"

    def interlude_on_another_dataset(self):
        """The user points the SAME path at another, already prepared dataset for a
        while (a `current.sqlite3` symlink re-pointed, a file moved aside and moved
        back: modification times are preserved), runs a command there -- one that
        fails after its expensive part, or one that succeeds -- and switches back.
        Nothing is demanded of the other dataset here; what matters is that the
        history of THIS dataset goes on unaffected (state kept per user or per path
        rather than per dataset would leak across)."""
        rng = self.rng
        other = os.path.join(self.dir, "other-dataset.sqlite")
        if not os.path.exists(other):
            _copy_with_sidecars(self.base, other)
            for name in ("classify-other", "set-zeta-grid"):
                ex = execute(other, op_argv(name, self.knobs, self.load_argv), dict(self.knobs, cache_pages=None),
                             None, self.dir)
                if not ex.outcome.ok:
                    self.stats["interlude_other_dataset_not_preparable"] += 1
                    os.remove(other)
                    return False
            old = os.stat(self.base).st_mtime - 86400.0
            os.utime(other, (old, old))
        held = self.db + ".held-aside"
        for suffix in _sidecars_of(self.db):
            if not suffix.endswith(".log"):
                return False                     # not while a journal is pending
        os.replace(self.db, held)
        shutil.copy2(other, self.db)             # same path, the other dataset, its old modification time
        which = rng.choice(["rise-offgrid", "recession-offgrid", "rise-absent", "rise", "recession"])
        ex = execute(self.db, op_argv(which, self.knobs, self.load_argv), self.knobs, None, self.dir)
        self.stats["interludes_on_another_dataset"] += 1
        self.logline("interlude", which, ex.outcome.brief())
        for suffix in _sidecars_of(self.db):
            if suffix != ".held-aside" and not suffix.endswith(".log"):
                os.remove(self.db + suffix)
        os.remove(self.db)
        os.replace(held, self.db)                # this dataset is back, modification time untouched
        self.ops.append({"op": "interlude", "argv": [which], "fault": None})
        return True

    def _drop_unusable_reference(self, op):
        """If `rise -r X` / `recession -r X` was refused fault-free although its
        prerequisites are complete (X is not on the assembled curve), later
        attempts of that step go without -r, so that the history still makes
        progress.  The refused attempt stays in the history as a failing attempt."""
        if op not in ("rise", "recession"):
            return
        key = "reference_%s_mm" % op
        if self.knobs.get(key) is None or op in self.acked:
            return
        if all(p in self.acked for p in PREREQ[op]) and self.last_twin_failed:
            self.knobs[key] = None
            self.stats["reference_level_dropped_after_refusal"] += 1
            self.logline("knob", key, "-> None")

    def run_history(self):
        rng = self.rng
        self.draw_setup()
        self.logline("seed", self.seed)
        self.logline("dataset", workload.describe(self.spec), "knobs", json.dumps(self.knobs, sort_keys=True),
                     "fault_rate", self.fault_rate, "layers", "".join(self.layers))
        load_fault = None
        if self.fault_rate > 0 and rng.random() < 0.03 and "A" in self.layers:
            load_fault = {"layer": "A", "kind": rng.choice(["raise", "kill"]), "exc": "OperationalError",
                          "at": rng.randrange(1, 12), "of": 12}
        self.do_load(load_fault)
        length = rng.randint(8, 22)
        position = 0
        interlude_done = False
        while position < length:
            if (not interlude_done and not self.deferred and "classify" in self.acked and "set-zeta-grid" in self.acked
                    and ("rise" not in self.acked or "recession" not in self.acked) and rng.random() < 0.12):
                interlude_done = self.interlude_on_another_dataset()
            op = self.next_op(position, length)
            argv = op_argv(op, self.knobs, self.load_argv)
            _ex, retry = self.do_op(op, argv, "draw")
            position += 1
            self._drop_unusable_reference(op)
            if retry is not None and rng.random() < 0.7:
                self.do_op(op, argv, None, expect=retry)
                position += 1
        # once faults stop: every step not yet completed is retried fault free (bounded liveness)
        for s in CANON_ORDER:
            if s not in self.acked:
                self.do_op(s, op_argv(s, self.knobs, self.load_argv), None)
                self._drop_unusable_reference(s)
                if s not in self.acked and s in ("rise", "recession"):
                    self.do_op(s, op_argv(s, self.knobs, self.load_argv), None)
        self.check_liveness()
        if self.other_process_seed is not None:
            self.check_other_process(self.other_process_seed)
        self.stats["histories"] += 1
        if len(self.acked) == len(STEPS):
            self.stats["histories_all_steps_completed"] += 1

    def check_liveness(self):
        """I6 (bounded liveness, evaluated once faults have stopped and every
        unfinished step has been retried fault free): a step that completes in
        a clean history of the same dataset and arguments must have completed
        here too -- failed attempts may not make a step impossible."""
        if any(c > 1 for c in self.ack_count.values()) or not getattr(self, "loaded_ok", True):
            return
        clean = os.path.join(self.dir, "clean.sqlite")
        _copy_with_sidecars(self.base, clean)
        completes = []
        for s in CANON_ORDER:
            argv = self.acked.get(s) or op_argv(s, self.knobs, self.load_argv)
            ex = execute(clean, list(argv), dict(self.knobs, cache_pages=None), None, self.dir)
            if ex.outcome.ok:
                completes.append(s)
        self.stats["I6_liveness_checked"] += 1
        missing = [s for s in completes if s not in self.acked]
        if missing:
            raise Violation("I6-step-completes-in-a-clean-history-but-not-after-failed-attempts",
                            {"op_index": len(self.ops) - 1, "steps": missing, "completed_here": sorted(self.acked)})

    def check_other_process(self, hash_seed):
        """I5 across processes: the same completed steps, run fault free in
        canonical order by a FRESH interpreter with another PYTHONHASHSEED,
        must leave the same content.  (The simulation pins the hash seed for
        replayability; real runs do not, and every spowtd command is its own
        process.)"""
        if any(c > 1 for c in self.ack_count.values()) or not self.acked:
            return
        request = os.path.join(self.dir, "canon-request.json")
        work = os.path.join(self.dir, "canonproc.sqlite")
        _copy_with_sidecars(self.base, work)
        with open(request, "w", encoding="utf-8") as f:
            json.dump({"db": work, "knobs": dict(self.knobs, cache_pages=None),
                       "ops": [[s, list(self.acked[s])] for s in CANON_ORDER if s in self.acked]}, f)
        envv = dict(os.environ)
        envv["PYTHONHASHSEED"] = str(hash_seed)
        envv["VCHECK_REEXEC"] = "1"
        import subprocess  # pylint: disable=import-outside-toplevel
        proc = subprocess.run([sys.executable, os.path.join(env.VERIF_ROOT, "bin", "vcheck"), "_canon",
                               "--replay", request], env=envv, capture_output=True, text=True, timeout=600, check=False)
        line = [l for l in proc.stdout.splitlines() if l.startswith("CANON ")]
        if proc.returncode != 0 or not line:
            raise runner.HarnessError("fresh-interpreter canonical run failed: %s %s" % (proc.stdout[-500:], proc.stderr[-500:]))
        result = json.loads(line[0][6:])
        self.stats["I5_checked_in_fresh_interpreter"] += 1
        if result["failed"] is not None:
            raise Violation("I5-steps-fail-in-another-process", {"op_index": len(self.ops) - 1, "failed": result["failed"],
                                                                 "hash_seed": hash_seed})
        if result["digest"] != self.current.digest:
            other = result["tables"]
            differing = sorted(t for t in set(other) | set(self.current.tables) if other.get(t) != self.current.tables.get(t))
            raise Violation("I5-content-depends-on-the-process-it-was-computed-in",
                            {"op_index": len(self.ops) - 1, "hash_seed": hash_seed, "tables": differing[:8]})

    # -- replay ---------------------------------------------------------------
    def run_ops(self, ops, liveness=False):
        self.logline("replay", len(ops))
        first = ops[0]
        self.do_load(first.get("fault"))
        pending = None
        for rec in ops[1:]:
            if rec["op"] == "interlude":
                # re-enact with the recorded command (the PRNG of a replay is not the original one)
                which = rec["argv"][0]
                saved_choice = self.rng.choice
                self.rng.choice = lambda seq, which=which: which if which in seq else saved_choice(seq)
                try:
                    self.interlude_on_another_dataset()
                    self.ops.pop()
                    self.ops.append(dict(rec))
                finally:
                    self.rng.choice = saved_choice
                continue
            expect = pending if (rec.get("retry_of_previous") and pending is not None) else None
            _ex, pending = self.do_op(rec["op"], rec["argv"], rec.get("fault"), expect=expect,
                                      defer=bool(rec.get("defer_recovery")))
        if liveness:
            self.check_liveness()
        if self.other_process_seed is not None:
            self.check_other_process(self.other_process_seed)

    def replay_record(self, violation):
        ops = [dict(rec) for rec in self.ops]
        return {
            "property": "C20", "seed": self.seed, "dataset": self.spec, "knobs": self.knobs,
            "fault_rate": self.fault_rate, "layers": self.layers, "ops": ops,
            "violation": {"class": violation.cls, "op_index": violation.detail.get("op_index")},
            "liveness": violation.cls.startswith("I6"),
            "other_process_seed": self.other_process_seed if "process" in violation.cls else None,
            "log_digest": runner.digest(self.log),
        }


class PeerProcess:
    """Another spowtd process working on the same dataset file at the same time:
    a fresh interpreter (never a fork: SQLite's per-process lock bookkeeping must
    not be inherited) started before the step, which runs one command when told
    to -- at a chosen SQL API call of the step under simulation -- and reports
    its outcome.  The two processes really contend for SQLite's file locks."""

    def __init__(self):
        import subprocess  # pylint: disable=import-outside-toplevel
        envv = dict(os.environ)
        envv["VCHECK_REEXEC"] = "1"
        self.proc = subprocess.Popen([sys.executable, os.path.join(env.VERIF_ROOT, "bin", "vcheck"), "_peer"],
                                     stdin=subprocess.PIPE, stdout=subprocess.PIPE, stderr=subprocess.DEVNULL,
                                     env=envv, text=True)
        self.outcome = None
        self.blocked = False
        ready = self._read(120)
        if ready != "READY":
            self.close()
            raise runner.HarnessError("peer process did not start: %r" % (ready,))

    def _read(self, timeout):
        import select  # pylint: disable=import-outside-toplevel
        r, _, _ = select.select([self.proc.stdout], [], [], timeout)
        if not r:
            return None
        return self.proc.stdout.readline().strip()

    def run(self, argv, knobs):
        self.proc.stdin.write(json.dumps({"argv": argv, "knobs": knobs}) + "\n")
        self.proc.stdin.flush()
        line = self._read(120)
        if line is None:
            self.blocked = True           # the peer waits for us: leave it, it is killed on close
            return None
        self.outcome = json.loads(line)
        return self.outcome

    def close(self):
        try:
            self.proc.stdin.close()
        except Exception:  # pylint: disable=broad-except
            pass
        try:
            self.proc.wait(timeout=5)
        except Exception:  # pylint: disable=broad-except
            self.proc.kill()
            self.proc.wait()


def peer_loop():
    """Entry point of the peer interpreter (vcheck _peer)."""
    cli._main()  # pylint: disable=protected-access
    if sysfault.available():
        sysfault.virtual_sleep(True)
    sys.stdout.write("READY\n")
    sys.stdout.flush()
    for line in sys.stdin:
        req = json.loads(line)
        sqlseam.set_plan(sqlseam.Plan(cache_pages=req["knobs"].get("cache_pages"), b_every=None))
        out = cli.run(req["argv"])
        sys.stdout.write(json.dumps(out.as_dict()) + "\n")
        sys.stdout.flush()
    return 0


def canon_in_this_process(request_path):
    """Entry point of the fresh interpreter started by check_other_process."""
    with open(request_path, encoding="utf-8") as f:
        req = json.load(f)
    cli._main()  # pylint: disable=protected-access
    failed = None
    for step, argv in req["ops"]:
        ex = execute(req["db"], argv, req["knobs"], None, os.path.dirname(req["db"]))
        if not ex.outcome.ok:
            failed = [step, ex.outcome.as_dict()]
            break
    d = dump_mod.dump(req["db"])
    print("CANON " + json.dumps({"digest": d.digest, "tables": d.tables, "failed": failed}))
    return 0


def run_trial(seed, directory, other_process_seed=None, **kw):
    """Returns (trial, violation or None)."""
    trial = Trial(seed, directory, **kw)
    trial.other_process_seed = other_process_seed
    home = os.getcwd()
    try:
        trial.run_history()
    except Violation as v:
        return trial, v
    finally:
        os.chdir(home)
        trial.leave_user_environment()
        reap_zombies()
    return trial, None


def replay_ops(rep, directory):
    trial = Trial(rep.get("seed", 0), directory, spec=rep["dataset"], knobs=dict(rep["knobs"]),
                  fault_rate=rep.get("fault_rate", 0.0), layers=list(rep.get("layers", ["A"])))
    trial.other_process_seed = rep.get("other_process_seed")
    home = os.getcwd()
    try:
        if trial.knobs.get("_relative_paths"):
            os.chdir(trial.dir)
        else:
            os.makedirs(os.path.join(trial.dir, "cwd"), exist_ok=True)
            os.chdir(os.path.join(trial.dir, "cwd"))
        trial.enter_user_environment()
        trial.run_ops(rep["ops"], liveness=bool(rep.get("liveness")))
    except Violation as v:
        return trial, v
    finally:
        os.chdir(home)
        trial.leave_user_environment()
    return trial, None


# ---------------------------------------------------------------------------
# sweeps: complete enumeration of fault positions for one (pre-state, step)
# ---------------------------------------------------------------------------

def sweep(seed, directory, step, prefix_steps, spec=None, knobs=None, layers=("A", "C", "B"), b_stride=None,
          field=None, max_positions=None, hot=False, size=None, shard=None, legacy=None):
    """Bring a dataset to a pre-state, then fail `step` at every position.

    Returns (stats, distinct, violations[list of (Violation, replay record)], sample).
    """
    rng = random.Random(seed)
    stats = collections.Counter()
    distinct = set()
    violations = []
    trial = Trial(seed, directory, spec=spec, knobs=knobs, fault_rate=0.0, layers=[])
    if field:
        trial.spec = {"kind": "field", "sample": field}
    elif size and size != "fine-grid":
        trial.spec = workload.gen_spec(trial.rng, size=size)
    trial.draw_setup()
    trial.knobs["legacy_layout"] = legacy        # sweeps choose the layout by case, not by chance
    if field or size:
        # large data: keep the grid fine and the thresholds nominal so that every step has thousands of rows
        trial.knobs["grid_mm"] = 0.05 if size == "fine-grid" else 1.0
        trial.knobs["reference_rise_mm"] = trial.knobs["reference_recession_mm"] = None
        if field:
            trial.knobs["thresholds"] = [8.0, 5.0]
        else:
            trial.knobs["thresholds"] = [trial.spec["s0"], trial.spec["j0"]]
    trial.fault_rate = 0.0
    trial.do_load(None)
    try:
        for s in prefix_steps:
            trial.do_op(s, op_argv(s, trial.knobs, trial.load_argv), None)
    except Violation as v:
        violations.append((v, trial.replay_record(v)))
        return trial.stats, trial.distinct, violations, None
    argv = op_argv(step, trial.knobs, trial.load_argv)
    if hot:
        # pre-state = the files exactly as a kill in the middle of COMMIT left them:
        # every swept fault then lands in (or after) hot-journal recovery
        if not sysfault.available():
            stats["sweep_hot_unavailable"] += 1
            return trial.stats + stats, trial.distinct, violations, None
        twin0, _post0 = trial.run_twin(argv)
        ks = [i for i, e in enumerate(twin0.sys_log) if e[0] == "p" and e[1] == "d"]
        if not ks or not twin0.outcome.ok:
            stats["sweep_hot_unavailable"] += 1
            return trial.stats + stats, trial.distinct, violations, None
        k = rng.choice(ks[:max(1, len(ks) // 2)])
        try:
            trial.do_op(step, argv, {"layer": "C", "kind": "kill_after", "at": k, "of": twin0.syscalls}, defer=True)
        except Violation as v:
            violations.append((v, trial.replay_record(v)))
            return trial.stats + stats, trial.distinct, violations, None
        stats["sweep_hot_prestates"] += 1
    prefix_ops = list(trial.ops)
    pre_path = os.path.join(directory, "prestate.sqlite")
    _copy_with_sidecars(trial.db, pre_path)
    pre_deferred = trial.deferred
    pre = trial.current
    pre_acked = dict(trial.acked)
    pre_ack_count = collections.Counter(trial.ack_count)
    twin_ex, post = trial.run_twin(argv)
    trial.ops.append({"op": step, "argv": argv, "fault": None})
    try:
        trial.check_twin(step, argv, twin_ex, post, bool(hot and trial.deferred))
    except Violation as v:
        violations.append((v, trial.replay_record(v)))
        return trial.stats + stats, trial.distinct, violations, None
    trial.ops.pop()
    plans = []
    if "A" in layers:
        for k in range(twin_ex.calls):
            plans.append({"layer": "A", "kind": "raise", "exc": "OperationalError", "at": k, "of": twin_ex.calls})
            plans.append({"layer": "A", "kind": "kill", "at": k, "of": twin_ex.calls, "signal": "KILL",
                          "leave_zombie": k % 5 == 2})
            plans.append({"layer": "A", "kind": "kill", "at": k, "of": twin_ex.calls,
                          "signal": ("TERM", "INT", "HUP")[k % 3]})
    if "C" in layers and sysfault.available():
        for k in range(twin_ex.syscalls):
            for kind in ("eio", "enospc", "kill_before", "kill_after", "short", "kill_mid"):
                entry = twin_ex.sys_log[k] if twin_ex.sys_log and k < len(twin_ex.sys_log) else None
                if kind == "short" and entry and entry[0] not in ("p", "w", "c"):
                    continue
                if kind == "kill_mid" and not (entry and (entry[0] == "c" or (entry[0] in ("p", "w") and entry[2] > 4096))):
                    continue
                plans.append({"layer": "C", "kind": kind, "at": k, "of": twin_ex.syscalls})
    if "B" in layers and twin_ex.callbacks:
        stride = b_stride or max(1, twin_ex.callbacks // 40)
        for k in sorted(set(range(0, twin_ex.callbacks, stride)) | {twin_ex.callbacks - 1, twin_ex.callbacks - 2}):
            if k < 0:
                continue
            plans.append({"layer": "B", "at": k, "of": twin_ex.callbacks, "every": trial.knobs.get("b_every")})
    if "R" in layers and twin_ex.rows:
        n_rows = twin_ex.rows
        stride = max(1, n_rows // 30)
        for k in sorted(set(range(0, n_rows, stride)) | {n_rows - 1, n_rows - 2, max(0, n_rows - 130)}):
            if k >= 0:
                plans.append({"layer": "R", "at": k, "of": n_rows})
    if "L" in layers:
        for lock in LAYER_KINDS["L"]:
            plans.append({"layer": "L", "lock": lock})
            if twin_ex.calls > 2:
                n_calls = twin_ex.calls
                spread = {1, 2, 3, n_calls // 4, n_calls // 2, (3 * n_calls) // 4, n_calls - 2, n_calls - 1,
                          n_calls, n_calls + 1, n_calls + 2, n_calls + 4, n_calls + 8, n_calls + 15}
                for k in sorted(x for x in spread if x >= 1):
                    plans.append({"layer": "L", "lock": lock, "release_at": k})
        if twin_ex.calls > 2:
            for k in (1, twin_ex.calls // 2, twin_ex.calls - 1):
                plans.append({"layer": "L", "lock": "shared", "acquire_at": k})
    if "P" in layers and twin_ex.calls > 0 and step in STEPS:
        n_calls = twin_ex.calls
        peers = [s_ for s_ in STEPS if s_ != step]
        if max_positions:
            peers = rng.sample(peers, 2)
        for peer_op in peers:
            for k in sorted({1, n_calls - 1} if max_positions else {0, 1, n_calls // 2, n_calls - 1}):
                plans.append({"layer": "P", "at": k, "of": n_calls, "peer_op": peer_op,
                              "peer_argv": op_argv(peer_op, trial.knobs, trial.load_argv)})
    if max_positions and len(plans) > max_positions:
        keep = [p_ for p_ in plans if p_["layer"] in ("P", "R")]
        if len(keep) > max_positions // 2:
            keep = [p_ for p_ in keep if p_["layer"] == "P"] + rng.sample(
                [p_ for p_ in keep if p_["layer"] == "R"], max(4, max_positions // 3))
        rest = [p_ for p_ in plans if p_["layer"] not in ("P", "R")]
        plans = keep + rng.sample(rest, max(0, max_positions - len(keep)))
    if shard:
        plans = plans[shard[0]::shard[1]]
    stats["sweep_cases"] += 1 if (not shard or shard[0] == 0) else 0
    stats["sweep_plans"] += len(plans)
    if field or size:
        stats["sweep_cases_large_data"] += 1
        stats["sweep_large_statements"] += twin_ex.calls
    stats["sweep_twin_ok" if twin_ex.outcome.ok else "sweep_twin_failing_step"] += 1
    for plan in plans:
        # restore the pre-state
        _copy_with_sidecars(pre_path, trial.db)
        trial.deferred = pre_deferred
        trial.current = pre
        trial.acked = dict(pre_acked)
        trial.ack_count = collections.Counter(pre_ack_count)
        trial.ops = list(prefix_ops)
        try:
            _ex, retry = trial.do_op(step, argv, plan, twin=(twin_ex, post))
            if retry is not None:
                trial.do_op(step, argv, None, expect=retry, twin=(twin_ex, post) if not trial.deferred else None)
        except Violation as v:
            violations.append((v, trial.replay_record(v)))
            if len(violations) >= 3:
                break
    sample = {"kind": "sweep", "hot_journal_prestate": bool(hot), "dataset": workload.describe(trial.spec), "prefix": list(prefix_steps), "step": step,
              "statements": twin_ex.calls, "callbacks": twin_ex.callbacks, "syscalls": twin_ex.syscalls,
              "plans": len(plans), "cache_pages": trial.knobs.get("cache_pages")}
    return trial.stats + stats, trial.distinct, violations, sample


# ---------------------------------------------------------------------------
# jobs
# ---------------------------------------------------------------------------

def _viol_record(v, replay):
    return {"property": "C20", "class": v.cls, "detail": v.detail,
            "signature": {"class": v.cls}, "replay": replay}


def history_job(job):
    stats = collections.Counter()
    distinct, violations, samples, digests = set(), [], [], []
    states = set()
    for i in range(job["count"]):
        seed = runner.derive_seed(job["seed"], "hist", i)
        with runner.RunDir() as directory:
            kw = {}
            if job.get("fault_free"):
                kw["fault_rate"] = 0.0
            if job.get("field"):
                kw["spec"] = {"kind": "field", "sample": job["field"]}
            if i == 0 and not job.get("field"):
                kw["other_process_seed"] = 1 + seed % 4000000000
            trial, v = run_trial(seed, directory, **kw)
            stats.update(trial.stats)
            distinct |= trial.distinct
            states |= trial.states_seen
            digests.append((seed, runner.digest(trial.log)))
            if v is not None:
                violations.append(_viol_record(v, trial.replay_record(v)))
            if job.get("want_samples") and len(samples) < 2:
                samples.append({"kind": "history", "seed": seed, "dataset": workload.describe(trial.spec),
                                "knobs": trial.knobs, "fault_rate": trial.fault_rate, "layers": trial.layers,
                                "ops": [{"op": o["op"], "fault": o.get("fault")} for o in trial.ops][:30]})
    stats["runs"] = job["count"]
    return {"stats": stats, "violations": violations[:3], "distinct": sorted(distinct), "samples": samples,
            "digests": digests, "states": sorted(states)}


def sweep_job(job):
    home = os.getcwd()
    saved = {k: os.environ.get(k) for k in Trial.USER_DIRS}
    try:
        return _sweep_job(job)
    finally:
        os.chdir(home)
        for var, value in saved.items():
            if value is None:
                os.environ.pop(var, None)
            else:
                os.environ[var] = value
        reap_zombies()


def _sweep_job(job):
    with runner.RunDir() as directory:
        stats, distinct, violations, sample = sweep(
            job["seed"], directory, job["step"], job["prefix"], layers=job.get("layers", ("A", "C", "B", "L", "P", "R")),
            knobs=None, field=job.get("field"), max_positions=job.get("max_positions"),
            spec=job.get("spec"), hot=bool(job.get("hot")), size=job.get("size"), shard=job.get("shard"),
            legacy=job.get("legacy"))
    stats = collections.Counter(stats)
    stats["runs"] = 1
    return {"stats": stats, "violations": [_viol_record(v, r) for v, r in violations][:3],
            "distinct": sorted(distinct), "samples": [sample] if sample and job.get("want_samples") else []}


def _dispatch(job):
    kind, payload = job
    if kind == "hist":
        return history_job(payload)
    return sweep_job(payload)


SWEEP_CASES = [
    # (step, prefix of completed steps)
    ("classify", ()),
    ("classify", ("set-zeta-grid", "set-curvature")),
    ("set-zeta-grid", ()),
    ("set-zeta-grid", ("classify",)),
    ("set-curvature", ()),
    ("set-curvature", ("classify", "set-zeta-grid", "recession")),
    ("recession", ("classify", "set-zeta-grid")),
    ("recession", ("set-zeta-grid", "classify", "rise")),
    ("rise", ("classify", "set-zeta-grid")),
    ("rise", ("set-curvature", "set-zeta-grid", "classify", "recession")),
    # failing attempts swept too: they must leave no trace wherever they are cut short
    ("rise", ("classify",)),
    ("classify", ("classify",)),
]

# files in an older layout: the step that finds its table missing (or creates it) swept at every position
LEGACY_SWEEP_CASES = [
    ("set-curvature", (), "no-curvature"),
    ("set-curvature", ("classify", "set-zeta-grid"), "0.3.0"),
    ("set-zeta-grid", ("classify",), "no-grid-tables"),
    ("rise", ("classify", "set-zeta-grid"), "no-rise-tables"),
    ("recession", ("classify", "set-zeta-grid"), "no-recession-tables"),
    ("classify", (), "no-pairing-table"),
]

HOT_SWEEP_CASES = [
    ("classify", ("set-zeta-grid",)),
    ("set-zeta-grid", ("classify",)),
    ("recession", ("classify", "set-zeta-grid")),
    ("rise", ("classify", "set-zeta-grid", "set-curvature")),
]

# large inputs (thousands of rows per step): chunked / batched / size-dependent commits only show here
LARGE_SWEEP_CASES = [
    ("recession", ("classify", "set-zeta-grid"), 1, None),
    ("rise", ("classify", "set-zeta-grid"), 2, None),
    ("classify", ("set-zeta-grid",), None, "xl"),
    ("recession", ("classify", "set-zeta-grid", "rise"), None, "xl"),
    ("rise", ("classify", "set-zeta-grid"), None, "xl"),
    ("classify", (), 2, None),
    ("set-zeta-grid", ("classify",), 1, "fine-grid"),      # thousands of discrete_zeta rows in one executemany
]

TIERS = {
    # histories: (jobs, per job); fault-free share; sweeps: number of (dataset) samples per sweep case
    "quick": {"hist": (48, 5), "fault_free_jobs": 8, "sweeps": 1, "hot_sweeps": 1, "sweep_max": 186, "field_hist": 0,
              "large_sweeps": 1, "large_max": 28, "shards": 3, "large_shards": 2},
    "thorough": {"hist": (1200, 10), "fault_free_jobs": 150, "sweeps": 10, "hot_sweeps": 6, "sweep_max": None, "field_hist": 4,
                 "large_sweeps": 4, "large_max": 320, "shards": 8, "large_shards": 16},
}

RULE = (
    "histories: seeded random command histories (8-22 ops: the five mutating steps in any order, premature / "
    "repeated / rejected attempts, read-only commands, load-again) over seeded synthetic datasets and knobs, each op "
    "optionally carrying one fault (statement error or kill at API call k; SQLite interrupt at VM callback k; "
    "a failed read of result row k; EIO / ENOSPC / short write / kill-before / kill-after at write-class syscall k; "
    "a peer holding a SHARED / "
    "RESERVED / EXCLUSIVE lock), positions drawn from the counts of a fault-free twin run of the same op on a copy; "
    "sweeps: for sampled (dataset, pre-state, step) every API-call position x {error, kill}, every write-class "
    "syscall x {EIO, ENOSPC, kill-before, kill-after, short}, a stride of interrupt positions and the three lock "
    "kinds. Invariants I1-I5 after every op. A case is non-trivial when the fault actually fired; distinct = "
    "distinct (abstract state = set of completed steps, op, fault layer:kind, phase of the step in thirds, "
    "resulting state pre/post). I6 (bounded liveness): once faults stop, every step that completes in a clean "
    "history completes here."
)

ASSUMPTIONS = [
    "process kill is modelled exactly (real SIGKILL of a forked child; durable state changes only at write-class syscalls, each of which is a kill-before/kill-after point); power loss (unsynced or torn writes) is outside the property and not simulated",
    "the fault-free twin run on a byte copy defines 'the complete result of the step'; a ten-line abstract model (markers per completed step) guards against twin and subject agreeing on 'nothing happened'",
    "SQLite itself (journal, locking, recovery) is real and trusted; the connect wrapper only counts calls, sets timeout=0 and a cache size",
    "numpy.alltrue / numpy.NaN are aliased by the harness so that rise / recession reach their writes under numpy 2",
    "seeded sampling of datasets, histories and multi-fault sequences; complete enumeration only of single-fault positions within each sampled (pre-state, step)",
]


def check(tier, only=None):
    seed = runner.base_seed()
    cfg = TIERS[tier]
    report = runner.Report("C20", tier, "fault_enumeration", seed)
    states = set()
    with runner.Scratch():
        cli._main()  # import spowtd in the parent so forked workers share it
        jobs = []
        n_jobs, per_job = cfg["hist"]
        if only in (None, "histories"):
            for i in range(n_jobs):
                jobs.append(("hist", {"seed": runner.derive_seed(seed, "C20", "hist", i), "count": per_job,
                                      "fault_free": i < cfg["fault_free_jobs"], "want_samples": i in (0, n_jobs - 1)}))
            for i in range(cfg["field_hist"]):
                jobs.append(("hist", {"seed": runner.derive_seed(seed, "C20", "fieldhist", i), "count": 1,
                                      "field": 1 + i % 2}))
        if only in (None, "sweeps"):
            nsh = cfg["shards"]
            cases = list(SWEEP_CASES)
            for name, fl in sorted(extra_flags().items()):
                for f in fl:
                    variant = (name + "-other" if name in ("classify", "set-zeta-grid", "set-curvature") else name) + "+" + f
                    # the unknown option on a finished workflow, and on a bare dataset
                    cases.append((variant, ("classify", "set-zeta-grid", "set-curvature", "recession", "rise")))
                    cases.append((variant, ()))
            for rep in range(cfg["sweeps"]):
                for ci, (step, prefix) in enumerate(cases):
                    for sh in range(nsh):
                        jobs.append(("sweep", {"seed": runner.derive_seed(seed, "C20", "sweep", rep, ci), "step": step,
                                               "prefix": list(prefix), "max_positions": cfg["sweep_max"],
                                               "shard": (sh, nsh),
                                               "want_samples": rep == 0 and ci in (0, 8) and sh == 0}))
            for rep in range(cfg["sweeps"]):
                for ci, (step, prefix, legacy) in enumerate(LEGACY_SWEEP_CASES):
                    jobs.append(("sweep", {"seed": runner.derive_seed(seed, "C20", "legacysweep", rep, ci), "step": step,
                                           "prefix": list(prefix), "max_positions": cfg["sweep_max"], "legacy": legacy}))
            for rep in range(cfg["hot_sweeps"]):
                for ci, (step, prefix) in enumerate(HOT_SWEEP_CASES):
                    for sh in range(nsh):
                        jobs.append(("sweep", {"seed": runner.derive_seed(seed, "C20", "hotsweep", rep, ci),
                                               "step": step, "prefix": list(prefix), "max_positions": cfg["sweep_max"],
                                               "hot": True, "layers": ("A", "C"), "shard": (sh, nsh),
                                               "want_samples": rep == 0 and ci == 0 and sh == 0}))
            for rep in range(cfg["large_sweeps"]):
                for ci, (step, prefix, field, size) in enumerate(LARGE_SWEEP_CASES):
                    for sh in range(cfg["large_shards"]):
                        jobs.append(("sweep", {"seed": runner.derive_seed(seed, "C20", "largesweep", rep, ci),
                                               "step": step, "prefix": list(prefix), "max_positions": cfg["large_max"],
                                               "field": field, "size": size, "layers": ("A", "C", "B", "R"), "large": True,
                                               "shard": (sh, cfg["large_shards"]),
                                               "want_samples": rep == 0 and ci == 0 and sh == 0}))
        jobs.sort(key=lambda j: (0 if j[1].get("large") else 1) if j[0] == "sweep" else 2)
        for result in runner.run_jobs(_dispatch, jobs):
            report.absorb(result)
            if result:
                states.update(result.get("states", ()))
    st = report.stats
    fired = {k[len("fault_fired_"):]: v for k, v in st.items() if k.startswith("fault_fired_")}
    configured = {k[len("fault_configured_"):]: v for k, v in st.items() if k.startswith("fault_configured_")}
    extra = {
        "fault_kinds": {"configured": configured, "fired": fired},
        "probes": {k[len("probe_"):]: v for k, v in st.items() if k.startswith("probe_")},
        "abstract_states_visited": sorted(states),
        "logical_steps": {"ops": st["ops"], "histories": st["histories"], "sweep_cases": st["sweep_cases"],
                          "sql_api_calls_in_fault_free_twins": st["logical_statements_fault_free"],
                          "vm_progress_callbacks_in_fault_free_twins": st["logical_vm_callbacks_fault_free"],
                          "write_class_syscalls_in_fault_free_twins": st["logical_syscalls_fault_free"]},
        "simulated_time": "no clock in the system under test: progress is counted in logical steps (above); "
                          "time.sleep is served by a simulated clock (%.1f s slept in %d calls during this run)" % (
                              cli.SIM_CLOCK["slept_s"], cli.SIM_CLOCK["sleeps"]),
        "seeds": {"distinct_run_seeds": st["runs"], "per_hour": int(st["runs"] / max(1e-9, (__import__("time").time() - report.t0)) * 3600)},
        "layer_C": "LD_PRELOAD shim" if sysfault.available() else "unavailable: fell back to layers A, B, L (statement-level kills only)",
        "real_vs_stub": {
            "real": ["spowtd.user_interface.main and every step module (current /repo tree)",
                     "SQLite C library, rollback journal, locking, hot-journal recovery on real files",
                     "process death: SIGKILL of a forked child", "lock-holding peer: a second SQLite connection"],
            "wrappers": ["sqlite3.Connection / Cursor subclasses (count + fail API calls, progress handler)",
                         "libc pwrite/pwrite64/write/fsync/fdatasync/ftruncate/unlink via LD_PRELOAD"],
            "stub": ["numpy.alltrue / numpy.NaN aliases", "process exit after an in-process step = closing leftover connections"],
            "simulated_time": "none: spowtd has no timers; SQLite's busy wait is removed with timeout=0",
        },
    }
    return report.finish(RULE, "ops", ASSUMPTIONS, extra, minimise=minimise)


# ---------------------------------------------------------------------------
# replay and minimisation
# ---------------------------------------------------------------------------

def replay_file(path):
    with open(path, encoding="utf-8") as f:
        rep = json.load(f)
    cli._main()
    with runner.RunDir() as directory:
        _trial, v = replay_ops(rep, directory)
    want = rep["violation"]["class"]
    same_op = (v is not None and rep["violation"].get("op_index") is not None
               and v.detail.get("op_index") == rep["violation"].get("op_index"))
    if v is not None and (v.cls == want or same_op):
        # the same history failing at the same command is the same violation; the label can differ when the
        # tree under test consults something outside the seams (a sweep reuses one fault-free twin for all
        # positions, a replay recomputes it: a tree that asks the OS whether a pid is alive answers differently)
        print("VIOLATION property=C20 replay=%s" % path)
        print("  class=%s%s detail=%s" % (v.cls, "" if v.cls == want else " (recorded as %s)" % want,
                                         json.dumps(v.detail, default=str)[:700]))
        return 1
    print("replay of %s did not reproduce class %s (got %s)" % (path, want, v.cls if v else None))
    return 0


def minimise(violation, budget=160):
    """ddmin-style shrinking of the op list, then of the dataset, while the same
    violation class persists."""
    rep = violation["replay"]
    cls = violation["class"]
    steps = 0

    def attempt(candidate):
        nonlocal steps
        steps += 1
        try:
            with runner.RunDir() as directory:
                trial, v = replay_ops(candidate, directory)
        except Exception:  # pylint: disable=broad-except
            return None
        if v is not None and v.cls == cls:
            out = trial.replay_record(v)
            # keep explicit flags
            for new, old in zip(out["ops"], candidate["ops"]):
                if old.get("retry_of_previous"):
                    new["retry_of_previous"] = True
            return out, v
        return None

    first = attempt(rep)
    if first is None:
        return violation        # not reproducible through the op list: report as is
    best, best_v = first
    original = {"ops": len(rep["ops"]), "segments": len(rep["dataset"].get("segments", []))}
    # cut everything after the failing op
    idx = best["violation"]["op_index"]
    if idx is not None and idx + 1 < len(best["ops"]):
        cand = dict(best, ops=best["ops"][:idx + 1])
        got = attempt(cand)
        if got:
            best, best_v = got
    # drop ops one at a time (never the load)
    changed = True
    while changed and steps < budget:
        changed = False
        for i in range(len(best["ops"]) - 2, 0, -1):
            if steps >= budget:
                break
            cand = dict(best, ops=best["ops"][:i] + best["ops"][i + 1:])
            got = attempt(cand)
            if got:
                best, best_v = got
                changed = True
                break
    # drop faults that are not needed
    for i, rec in enumerate(best["ops"]):
        if steps >= budget:
            break
        if rec.get("fault") and i != len(best["ops"]) - 1:
            ops = [dict(o) for o in best["ops"]]
            ops[i]["fault"] = None
            got = attempt(dict(best, ops=ops))
            if got:
                best, best_v = got
    # move each remaining fault to the earliest position that still fails, and try the simplest kind there
    for i, rec in enumerate(best["ops"]):
        fault = rec.get("fault")
        if not fault or "at" not in fault or steps >= budget:
            continue
        at = fault["at"]
        for cand_at in sorted({0, 1, 2, at // 8, at // 4, at // 2, (3 * at) // 4}):
            if cand_at >= at or steps >= budget:
                continue
            ops = [dict(o) for o in best["ops"]]
            ops[i]["fault"] = dict(fault, at=cand_at)
            got = attempt(dict(best, ops=ops))
            if got:
                best, best_v = got
                break
        fault = best["ops"][i].get("fault") if i < len(best["ops"]) else None
        if fault and fault.get("layer") == "A" and fault.get("kind") == "raise" and fault.get("exc") != "OperationalError" \
                and steps < budget:
            ops = [dict(o) for o in best["ops"]]
            ops[i]["fault"] = dict(fault, exc="OperationalError")
            got = attempt(dict(best, ops=ops))
            if got:
                best, best_v = got
    # knobs back to defaults where that keeps the failure
    for key, default in (("cache_pages", None), ("verbosity", 0), ("logfile", False), ("b_every", 50)):
        if steps >= budget or best["knobs"].get(key) == default:
            continue
        got = attempt(dict(best, knobs=dict(best["knobs"], **{key: default})))
        if got:
            best, best_v = got
    # shrink the dataset
    if best["dataset"].get("kind") == "synthetic":
        changed = True
        while changed and steps < budget:
            changed = False
            segs = best["dataset"]["segments"]
            for i in range(len(segs)):
                if steps >= budget or len(segs) <= 2:
                    break
                d = json.loads(json.dumps(best["dataset"]))
                del d["segments"][i]
                got = attempt(dict(best, dataset=d))
                if got:
                    best, best_v = got
                    changed = True
                    break
    best["minimised_from"] = original
    return {"property": "C20", "class": cls, "detail": best_v.detail, "signature": {"class": cls}, "replay": best}
