"""C01 / C02 engine: the storm-rise arbitration loop under a seeded scheduler.

The system under simulation is spowtd's real `disambiguate_matching` /
`find_stable_matching` (function level) and the real `spowtd load` +
`spowtd classify` commands (data level).  The one nondeterministic choice in
that code -- which free storm proposes next (`set.pop()`) -- is owned by the
simulator through the guarded hook `classify._VERIF_WORKLIST`.

See DESIGN.md section 5.
"""

import collections
import json
import os
import random
import shutil
import sys

from sim import cli, env, runner, sqlseam, workload
from . import refmodel

POLICIES = ("fifo", "lifo", "random", "smallest", "largest", "starve", "random", "random")


class Livelock(Exception):
    """Raised by the worklist when the loop exceeds its step bound (J4)."""


# ---------------------------------------------------------------------------
# the scheduler-owned worklist
# ---------------------------------------------------------------------------

class Schedule:
    """Decides every pop.  One instance per call of find_stable_matching."""

    def __init__(self, policy, seed, choices=None):
        self.policy = policy
        self.seed = seed
        self.rng = random.Random(seed)
        self.replay = list(choices) if choices is not None else None
        self.choices = []
        self.sizes = []
        self.victim = None

    def pick(self, order):
        n = len(order)
        k = len(self.choices)
        if self.replay is not None:
            idx = (self.replay[k] % n) if k < len(self.replay) else 0
        elif self.policy == "fifo":
            idx = 0
        elif self.policy == "lifo":
            idx = n - 1
        elif self.policy == "smallest":
            idx = min(range(n), key=lambda i: order[i])
        elif self.policy == "largest":
            idx = max(range(n), key=lambda i: order[i])
        elif self.policy == "starve":
            if self.victim is None:
                self.victim = self.rng.choice(sorted(order))
            others = [i for i in range(n) if order[i] != self.victim]
            idx = self.rng.choice(others) if others else 0
        else:
            idx = self.rng.randrange(n)
        self.choices.append(idx)
        self.sizes.append(n)
        return idx

    def as_dict(self):
        return {"policy": self.policy, "seed": self.seed, "choices": list(self.choices)}


class Worklist:
    """Exactly the interface of the set the loop uses: bool, in, add, pop.

    Deliberately no `append`: the code is exercised against a real set's API.
    """

    def __init__(self, items, ctx):
        self._order = sorted(items)
        self._members = set(self._order)
        self._ctx = ctx
        self._pops = 0
        frame = sys._getframe(2)     # find_stable_matching (factory is frame 1)
        cands = frame.f_locals.get("storm_candidates")
        self._bound = None
        self._edges = None
        if isinstance(cands, dict):
            total = sum(len(v) for v in cands.values())
            self._bound = 4 * total + 16
            self._edges = {(s, j) for s, js in cands.items() for j in js}
        self._last_pref = {}
        ctx.worklists += 1

    def __bool__(self):
        return bool(self._order)

    def __len__(self):
        return len(self._order)

    def __contains__(self, item):
        return item in self._members

    def __iter__(self):
        return iter(list(self._order))

    def add(self, item):
        if item not in self._members:
            self._order.append(item)
            self._members.add(item)
            self._ctx.requeues += 1

    def discard(self, item):
        if item in self._members:
            self._order.remove(item)
            self._members.discard(item)

    def remove(self, item):
        self._order.remove(item)
        self._members.discard(item)

    def pop(self):
        if not self._order:
            raise KeyError("pop from an empty set")
        self._pops += 1
        self._ctx.pops += 1
        if self._bound is not None and self._pops > self._bound:
            self._ctx.livelock = True
            raise Livelock("more than %d pops" % self._bound)
        self._observe(sys._getframe(1))
        idx = self._ctx.schedule.pick(self._order)
        item = self._order.pop(idx)
        self._members.discard(item)
        return item

    def _observe(self, frame):
        """Diagnostics J1-J3 at every pop (read-only; never a verdict)."""
        loc = frame.f_locals
        matches = loc.get("matches")
        if not isinstance(matches, dict):
            self._ctx.diag["locals_unavailable"] += 1
            return
        if len(matches) > 64:
            return                      # diagnostics are quadratic: only on small groups
        values = list(matches.values())
        if len(set(values)) != len(values):
            self._ctx.diag["J1_not_injective_midrun"] += 1
        if self._edges is not None:
            for j, s in matches.items():
                if (s, j) not in self._edges:
                    self._ctx.diag["J1_non_candidate_midrun"] += 1
        for s in values:
            if s in self._order:
                self._ctx.diag["J2_queued_and_matched"] += 1
        prefs = loc.get("jump_preferences")
        if isinstance(prefs, dict):
            for j, s in matches.items():
                try:
                    p = prefs[j][s]
                except Exception:  # pylint: disable=broad-except
                    continue
                if j in self._last_pref and p < self._last_pref[j]:
                    self._ctx.diag["J3_rise_preference_decreased"] += 1
                self._last_pref[j] = p


class Ctx:
    """Per-call context the factory closes over."""

    def __init__(self, schedule):
        self.schedule = schedule
        self.worklists = 0
        self.pops = 0
        self.requeues = 0
        self.livelock = False
        self.diag = collections.Counter()


_CTX = None
_CLASSIFY = None
_OBSERVED_CALLS = None


def _factory(items):
    return Worklist(items, _CTX)


def classify_module():
    """Import the real module from the tree under test and install the hook."""
    global _CLASSIFY
    if _CLASSIFY is None:
        env.install_repo_on_path()
        env.install_numpy_shim()
        sqlseam.install()
        import spowtd.classify as mod  # pylint: disable=import-outside-toplevel
        _CLASSIFY = mod
        os.environ[env.GUARD] = "1"
        if not hasattr(mod, "_VERIF_WORKLIST"):
            raise runner.HarnessError(
                "hook missing: spowtd.classify has no _VERIF_WORKLIST (see MANIFEST.hooks)")
        real = mod.disambiguate_matching

        def observed(rain_intervals, jump_intervals):
            if _OBSERVED_CALLS is not None:
                _OBSERVED_CALLS.append(([tuple(map(int, x)) for x in rain_intervals],
                                        [tuple(map(int, x)) for x in jump_intervals]))
            return real(rain_intervals, jump_intervals)

        observed.__wrapped__ = real
        mod.disambiguate_matching = observed
    return _CLASSIFY


def with_schedule(schedule):
    global _CTX
    mod = classify_module()
    _CTX = Ctx(schedule)
    mod._VERIF_WORKLIST = _factory  # pylint: disable=protected-access
    return _CTX


def without_schedule():
    global _CTX
    if _CLASSIFY is not None:
        _CLASSIFY._VERIF_WORKLIST = None  # pylint: disable=protected-access
    _CTX = None


# ---------------------------------------------------------------------------
# function level
# ---------------------------------------------------------------------------

def gen_instance(rng):
    """Random candidate graph in the property's terms (refmodel instance)."""
    mode = rng.choices(["random", "interval", "notie", "dense", "big", "largevals", "chain", "star", "ladder"],
                       weights=[400, 300, 400, 100, 200, 200, 200, 100, 3])[0]
    ns, nr = rng.randint(1, 6), rng.randint(1, 6)
    span = 60 if mode == "notie" else rng.choice([12, 25, 40])
    maxdur = 30 if mode == "notie" else rng.choice([3, 6, 10])
    if mode == "big":
        # one large connected group: long displacement cascades, storms with many candidates
        ns, nr = rng.randint(6, 10), rng.randint(6, 10)
        span, maxdur = 400, rng.choice([12, 60, 200])
    elif mode == "largevals":
        # magnitudes far beyond what a short record produces (indices into 30 k-sample records and more)
        span = rng.choice([5000, 70000, 300000, 5000000, 2 ** 24 + 4096, 2 ** 31 + 10 ** 6, 10 ** 12, 2 ** 53 + 10 ** 7])
        maxdur = rng.choice([300, 3000, 40000, 70000, 12, 40])
        if span > 5000000:
            # indices beyond 2**24 / 2**31 / 2**53 (a 1 Hz logger after months; epochs used as indices):
            # all starts close together near the top of the range, so that only exact arithmetic orders them
            base = span - rng.choice([2000, 50000])
            s_starts = [base + x for x in rng.sample(range(span - base), ns)]
            r_starts = [base + x for x in rng.sample(range(span - base), nr)]
            storms = {s_: (s_, rng.randint(1, maxdur)) for s_ in s_starts}
            rises = {r_: (r_, rng.randint(1, maxdur)) for r_ in r_starts}
            edges = {(s_, r_) for s_ in storms for r_ in rises if rng.random() < 0.6} or {(s_starts[0], r_starts[0])}
            inst = {"storms": storms, "rises": rises, "edges": edges}
            used_s = {s_ for s_, _ in edges}
            used_r = {r_ for _, r_ in edges}
            inst["storms"] = {k: v for k, v in storms.items() if k in used_s}
            inst["rises"] = {k: v for k, v in rises.items() if k in used_r}
            return inst
    if mode == "chain":
        return gen_chain_instance(rng)
    if mode == "star":
        return gen_star_instance(rng)
    if mode == "ladder":
        return gen_ladder_instance(rng)
    s_starts = rng.sample(range(span), ns)
    r_starts = rng.sample(range(span), nr)
    storms = {s: (s, rng.randint(1, maxdur)) for s in s_starts}
    rises = {r: (r, rng.randint(1, maxdur)) for r in r_starts}
    edges = set()
    if mode == "interval":
        for s, (a, d) in storms.items():
            for r, (c, e) in rises.items():
                if max(a, c) < min(a + d, c + e):
                    edges.add((s, r))
    else:
        p = 1.0 if mode == "dense" else rng.choice([0.3, 0.5, 0.8])
        if mode == "big":
            p = rng.choice([0.25, 0.4, 0.7])
        for s in storms:
            for r in rises:
                if rng.random() < p:
                    edges.add((s, r))
    if not edges:
        edges.add((s_starts[0], r_starts[0]))
    inst = {"storms": storms, "rises": rises, "edges": edges}
    if mode == "notie":
        for _ in range(30):
            if not refmodel.has_ties(inst) and not refmodel.has_ties(inst, 1):
                break
            storms = {s: (s, rng.randint(1, maxdur)) for s in s_starts}
            rises = {r: (r, rng.randint(1, maxdur)) for r in rng.sample(range(span), nr)}
            r_list = sorted(rises)
            edges = {(s, r) for s in storms for r in r_list if rng.random() < 0.6} or {(s_starts[0], r_list[0])}
            inst = {"storms": storms, "rises": rises, "edges": edges}
    # isolated nodes are not part of the relation
    used_s = {s for s, _ in inst["edges"]}
    used_r = {r for _, r in inst["edges"]}
    inst["storms"] = {s: v for s, v in inst["storms"].items() if s in used_s}
    inst["rises"] = {r: v for r, v in inst["rises"].items() if r in used_r}
    return inst


def gen_chain_instance(rng):
    """A displacement cascade by construction: storm i's first choice is rise i,
    rise i's favourite is storm i+1 whose own first choice is rise i ... so that
    under most orders every proposal displaces the previous holder."""
    k = rng.randint(3, 9)
    base = rng.choice([10, 1000, 50000])
    storms, rises, edges = {}, {}, set()
    # rises at increasing starts with distinct durations
    durs = rng.sample(range(2, 40 + 3 * k), k + 1)
    r_ids = [base + 50 * i for i in range(k + 1)]
    for r, d in zip(r_ids, durs):
        rises[r] = (r, d)
    for i in range(k):
        # storm i overlaps rise i and rise i+1 (sometimes also i+2); duration closest to rise i+1
        start = r_ids[i + 1] - rng.randint(1, 20) - i
        dur = rises[r_ids[i + 1]][1] + rng.choice([-1, 0, 1]) * rng.randint(0, 1)
        dur = max(1, dur)
        while start in storms:
            start -= 1
        storms[start] = (start, dur)
        edges.add((start, r_ids[i]))
        edges.add((start, r_ids[i + 1]))
        if i + 2 <= k and rng.random() < 0.4:
            edges.add((start, r_ids[i + 2]))
    inst = {"storms": storms, "rises": rises, "edges": edges}
    used_r = {r for _, r in edges}
    inst["rises"] = {r: v for r, v in rises.items() if r in used_r}
    return inst


def gen_ladder_instance(rng):
    """A ladder of more than a thousand storms in one connected group: storm i
    overlaps rise i-1 and rise i; every storm strictly prefers (by duration) the
    rise on one side and every rise strictly prefers (by start) the storm on
    that side; the storm at the far end has a single candidate, so that its one
    proposal displaces its neighbour, which displaces its neighbour, ... all the
    way down (a displacement cascade as deep as the ladder).  Periodic weather
    -- a wet spell every few hours for months -- produces exactly this."""
    n = rng.randint(1100, 1700)
    period = rng.choice([7, 9, 12])
    storms, rises, edges = {}, {}, set()
    for i in range(n):
        dur = 5 + (i % 2)
        s_start = period * i
        storms[s_start] = (s_start, dur)
        if i < n - 1:
            r_start = period * i + 4
            rises[r_start] = (r_start, dur)            # same duration as storm i: storm i's first choice
            edges.add((s_start, r_start))
        if i > 0:
            edges.add((s_start, period * (i - 1) + 4))  # and the previous rise, closer in start to storm i
    return {"storms": storms, "rises": rises, "edges": edges}


def gen_star_instance(rng):
    """One long storm with a dozen or more candidate rises (a long wet spell over
    many short rises), plus a few ordinary storms competing for some of them:
    long candidate lists, which small random graphs never contain."""
    n_rises = rng.randint(11, 24)
    span = rng.choice([200, 2000, 100000])
    r_starts = sorted(rng.sample(range(10, span), n_rises))
    rises = {r: (r, rng.randint(1, 12)) for r in r_starts}
    hub = rng.randrange(0, span)
    while hub in rises:
        hub += 1
    storms = {hub: (hub, rng.randint(1, 60))}
    edges = {(hub, r) for r in r_starts}
    for _ in range(rng.randint(0, 4)):
        s0 = rng.randrange(0, span)
        if s0 in storms:
            continue
        storms[s0] = (s0, rng.randint(1, 12))
        for r in rng.sample(r_starts, rng.randint(1, 3)):
            edges.add((s0, r))
    return {"storms": storms, "rises": rises, "edges": edges}


def inst_to_json(inst):
    return {"storms": {str(k): list(v) for k, v in sorted(inst["storms"].items())},
            "rises": {str(k): list(v) for k, v in sorted(inst["rises"].items())},
            "edges": sorted([list(e) for e in inst["edges"]])}


def inst_from_json(j):
    return {"storms": {int(k): tuple(v) for k, v in j["storms"].items()},
            "rises": {int(k): tuple(v) for k, v in j["rises"].items()},
            "edges": {tuple(e) for e in j["edges"]}}


def code_intervals(inst, edge_order):
    """The representation match_storms hands to disambiguate_matching:
    one (rain (start, stop), jump (start, stop)) entry per candidate edge;
    a jump slice over head samples has one more element than increments."""
    rain, jump = [], []
    for s, r in edge_order:
        a, d = inst["storms"][s]
        c, e = inst["rises"][r]
        rain.append((a, a + d))
        jump.append((c, c + e + 1))
    return rain, jump


def set_log_level(seed):
    """The logging level is part of the configuration a user chooses (-v ... -vvv);
    results must not depend on it.  One case in four runs with spowtd's loggers
    at DEBUG (output discarded)."""
    import logging  # pylint: disable=import-outside-toplevel
    logger = logging.getLogger("spowtd")
    if not logger.handlers:
        logger.addHandler(logging.NullHandler())
    logger.setLevel(logging.DEBUG if seed % 4 == 3 else logging.WARNING)


def run_function_case(inst, edge_order, schedule):
    """One execution of the real arbitration under one schedule.
    Returns (matching dict rise->storm or None, exception info or None, ctx)."""
    mod = classify_module()
    set_log_level(schedule.seed)
    rain, jump = code_intervals(inst, edge_order)
    ctx = with_schedule(schedule)
    try:
        try:
            out_rain, out_jump = mod.disambiguate_matching.__wrapped__(list(rain), list(jump))
        except BaseException as exc:  # pylint: disable=broad-except
            if isinstance(exc, (KeyboardInterrupt, SystemExit)):
                raise
            frames = cli._spowtd_frames(exc.__traceback__)  # pylint: disable=protected-access
            info = {"exc_type": type(exc).__name__, "exc_msg": str(exc)[:200],
                    "frame": frames[-1] if frames else "outside"}
            return None, info, ctx
    finally:
        without_schedule()
    problems = []
    matching = {}
    storms_seen = set()
    if len(out_rain) != len(out_jump):
        problems.append("result lists differ in length")
    for (a, b), (c, d) in zip(out_rain, out_jump):
        a, b, c, d = int(a), int(b), int(c), int(d)
        if a not in inst["storms"] or c not in inst["rises"]:
            problems.append("unknown interval in result")
            continue
        if b != a + inst["storms"][a][1] or d != c + inst["rises"][c][1] + 1:
            problems.append("result interval has a different stop than the input")
        if c in matching:
            problems.append("rise %d matched twice" % c)
        if a in storms_seen:
            problems.append("storm %d matched twice" % a)
        storms_seen.add(a)
        matching[c] = a
    if problems:
        return matching, {"exc_type": None, "problems": problems}, ctx
    return matching, None, ctx


def judge_matching(inst, matching):
    """Verdict of the reference model on one result.  Returns list of
    (property, class, detail) -- empty when everything demanded holds."""
    out = []
    wf = refmodel.well_formed(inst, matching)
    if wf:
        out.append(("C01", "not-one-to-one-or-non-candidate", wf))
        return out
    blocking = refmodel.blocking_pairs(inst, matching, 0)
    if blocking:
        biased = refmodel.blocking_pairs(inst, matching, 1)
        cls = "blocking-pair" if biased else "blocking-pair-only-in-true-durations"
        out.append(("C02", cls, {"blocking": blocking[:4], "matching": sorted(matching.items())}))
    return out


def reference_optimal(inst, bias=0):
    """Storm-optimal stable matching for a tie-free instance, per component:
    brute force where feasible, textbook deferred acceptance otherwise."""
    result = {}
    brute = 0
    for comp in refmodel.components(inst):
        m = None
        if len(comp["edges"]) <= 14:
            m, _n = refmodel.storm_optimal(comp, bias, cap=50000)
            if m is not None:
                brute += 1
        if m is None:
            m = refmodel.deferred_acceptance(comp, bias)
        result.update(m)
    return result, brute


def judge_optimal(inst, matching):
    """C02-b: when no candidate ties with another, the result is the
    storm-optimal stable matching."""
    if refmodel.has_ties(inst, 0):
        return [], "ties"
    opt, _ = reference_optimal(inst, 0)
    if opt == matching:
        return [], "checked"
    cls = "not-storm-optimal"
    if not refmodel.has_ties(inst, 1):
        opt1, _ = reference_optimal(inst, 1)
        if opt1 == matching:
            cls = "not-storm-optimal-only-in-true-durations"
    return [("C02", cls, {"expected": sorted(opt.items()), "got": sorted(matching.items())})], "checked"


def evaluate_function_case(inst, edge_order, schedules):
    """Run one instance under several schedules; return (violations, stats, distinct)."""
    stats = collections.Counter()
    violations = []
    distinct = []
    results = []
    tie_free = not refmodel.has_ties(inst, 0)
    for sch in schedules:
        matching, info, ctx = run_function_case(inst, edge_order, sch)
        stats["executions"] += 1
        stats["pops"] += ctx.pops
        stats["requeues"] += ctx.requeues
        for k, v in ctx.diag.items():
            stats["diag_" + k] += v
        if ctx.worklists == 0:
            stats["hook_not_reached"] += 1
        if ctx.requeues or ctx.pops > len(inst["storms"]):
            distinct.append("f:%s:%s" % (refmodel.inst_digest(inst), runner.digest(ctx.schedule.choices)))
        found = []
        if ctx.livelock:
            found.append(("C01", "livelock", {"pops": ctx.pops}))
        elif info is not None and info.get("exc_type"):
            found.append(("C01", "exception:%s@%s" % (info["exc_type"], info["frame"]), info))
        elif info is not None:
            found.append(("C01", "malformed-result", info["problems"]))
        else:
            found.extend(judge_matching(inst, matching))
            if not found or all(p != "C01" for p, _, _ in found):
                opt_found, state = judge_optimal(inst, matching)
                stats["optimal_" + state] += 1
                # an optimality failure is implied by a blocking pair; report the stronger fact once
                if not found:
                    found.extend(opt_found)
            results.append((sch, matching))
        for prop, cls, detail in found:
            violations.append({
                "property": prop, "class": cls, "detail": detail,
                "signature": {"level": "function", "class": cls},
                "replay": {"property": prop, "level": "function", "instance": inst_to_json(inst),
                           "edge_order": [list(e) for e in edge_order],
                           "schedules": [ctx.schedule.as_dict()], "violation": {"class": cls}},
            })
    if tie_free and len(results) > 1:
        first = results[0][1]
        for sch, m in results[1:]:
            if m != first:
                violations.append({
                    "property": "C02", "class": "order-dependent", "signature": {"level": "function", "class": "order-dependent"},
                    "detail": {"a": sorted(first.items()), "b": sorted(m.items())},
                    "replay": {"property": "C02", "level": "function", "instance": inst_to_json(inst),
                               "edge_order": [list(e) for e in edge_order],
                               "schedules": [results[0][0].as_dict(), sch.as_dict()],
                               "violation": {"class": "order-dependent"}},
                })
                break
    stats["instances"] += 1
    stats["instances_tie_free" if tie_free else "instances_with_ties"] += 1
    return violations, stats, distinct


def enumerate_function_case(inst, edge_order, cap=150):
    """Every proposer schedule of one instance (depth-first over the scheduler's
    choice points, stateless re-execution), up to `cap` executions.
    Returns (violations, stats, distinct)."""
    stats = collections.Counter()
    violations, distinct = [], []
    tie_free = not refmodel.has_ties(inst, 0)
    stack = [[]]
    first = None
    runs = 0
    complete = True
    while stack:
        if runs >= cap:
            complete = False
            break
        prefix = stack.pop()
        sch = Schedule("enumerated", 0, choices=prefix)
        matching, info, ctx = run_function_case(inst, edge_order, sch)
        runs += 1
        stats["executions"] += 1
        stats["enumerated_executions"] += 1
        stats["pops"] += ctx.pops
        stats["requeues"] += ctx.requeues
        choices, sizes = ctx.schedule.choices, ctx.schedule.sizes
        for i in range(len(prefix), len(choices)):
            for alt in range(1, sizes[i]):
                stack.append(choices[:i] + [alt])
        if ctx.requeues:
            distinct.append("f:%s:%s" % (refmodel.inst_digest(inst), runner.digest(choices)))
        found = []
        if ctx.livelock:
            found.append(("C01", "livelock", {"pops": ctx.pops}))
        elif info is not None and info.get("exc_type"):
            found.append(("C01", "exception:%s@%s" % (info["exc_type"], info["frame"]), info))
        elif info is not None:
            found.append(("C01", "malformed-result", info["problems"]))
        else:
            found.extend(judge_matching(inst, matching))
            if not found:
                opt_found, _state = judge_optimal(inst, matching)
                found.extend(opt_found)
            if not found and tie_free:
                if first is None:
                    first = (ctx.schedule.as_dict(), matching)
                elif matching != first[1]:
                    violations.append({
                        "property": "C02", "class": "order-dependent",
                        "signature": {"level": "function", "class": "order-dependent"},
                        "detail": {"a": sorted(first[1].items()), "b": sorted(matching.items())},
                        "replay": {"property": "C02", "level": "function", "instance": inst_to_json(inst),
                                   "edge_order": [list(e) for e in edge_order],
                                   "schedules": [first[0], ctx.schedule.as_dict()],
                                   "violation": {"class": "order-dependent"}}})
        for prop, cls, detail in found:
            violations.append({
                "property": prop, "class": cls, "detail": detail,
                "signature": {"level": "function", "class": cls},
                "replay": {"property": prop, "level": "function", "instance": inst_to_json(inst),
                           "edge_order": [list(e) for e in edge_order],
                           "schedules": [ctx.schedule.as_dict()], "violation": {"class": cls}}})
        if violations:
            break
    stats["instances_enumerated"] += 1
    if complete and not violations:
        stats["instances_all_schedules_explored"] += 1
    stats["enumerated_instances_capped"] += 0 if complete else 1
    return violations, stats, distinct


def function_job(job):
    """A chunk of function-level instances."""
    seed, count, n_sched = job["seed"], job["count"], job["n_sched"]
    stats = collections.Counter()
    violations, distinct, samples = [], [], []
    for i in range(count):
        s = runner.derive_seed(seed, "inst", i)
        rng = random.Random(s)
        inst = gen_instance(rng)
        edge_order = sorted(inst["edges"])
        rng.shuffle(edge_order)
        schedules = [Schedule(POLICIES[k % len(POLICIES)], runner.derive_seed(s, "sched", k)) for k in range(n_sched)]
        v, st, di = evaluate_function_case(inst, edge_order, schedules)
        stats.update(st)
        distinct.extend(di)
        if i % 5 == 0 and len(inst["storms"]) <= 5:
            v2, st2, di2 = enumerate_function_case(inst, edge_order, job.get("enum_cap", 150))
            stats.update(st2)
            distinct.extend(di2)
            v = v + v2
        for x in v:
            x["replay"]["seed"] = s
        violations.extend(v[:2])
        if i < 2 and job.get("want_samples"):
            samples.append({"level": "function", "seed": s, "instance": inst_to_json(inst),
                            "schedule": schedules[2].as_dict()})
    # keep IPC small: at most a handful of violations per class per chunk
    kept, seen = [], collections.Counter()
    for x in violations:
        seen[(x["property"], x["class"])] += 1
        if seen[(x["property"], x["class"])] <= 2:
            kept.append(x)
    stats["violations_total"] = len(violations)
    return {"stats": stats, "violations": kept, "distinct": distinct, "samples": samples}


# ---------------------------------------------------------------------------
# data level
# ---------------------------------------------------------------------------

def read_relation(db_path, s_thr, j_thr):
    """Recompute, independently of spowtd, the storms, rises and their overlap
    relation from the *stored* series.  ids are start epochs.

    A storm is a maximal run of steps with intensity > s_thr inside one
    gap-free stretch; a rise is a maximal run of increments > j_thr * dt_h; an
    edge joins a storm and a rise that share a time step.
    """
    con = sqlseam.plain_connect(db_path)
    try:
        (dt,) = con.execute("SELECT time_step_s FROM time_grid").fetchone()
        rows = con.execute(
            "SELECT gt.data_interval, wl.epoch, wl.zeta_mm, ri.rainfall_intensity_mm_h "
            "FROM grid_time AS gt JOIN rainfall_intensity AS ri ON ri.from_epoch = gt.epoch "
            "JOIN water_level AS wl ON wl.epoch = gt.epoch "
            "WHERE gt.data_interval IS NOT NULL ORDER BY gt.data_interval, wl.epoch").fetchall()
        labelled = [r[0] for r in con.execute(
            "SELECT DISTINCT data_interval FROM grid_time WHERE data_interval IS NOT NULL ORDER BY 1")]
    finally:
        con.close()
    stretches = collections.OrderedDict()
    for di in labelled:
        stretches[di] = []
    for di, epoch, zeta, rain in rows:
        stretches.setdefault(di, []).append((epoch, zeta, rain))
    jump_delta = j_thr * (float(dt) / 3600.0)
    inst = {"storms": {}, "rises": {}, "edges": set()}
    classes = set()
    per_stretch = []
    for di, data in stretches.items():
        n = len(data)
        epochs = [d[0] for d in data]
        if n == 0:
            classes.add("zero_sample_stretch")
            per_stretch.append({"data_interval": di, "epochs": epochs})
            continue
        if n == 1:
            classes.add("one_sample_stretch")
        heavy = [d[2] > s_thr for d in data]
        inc = [data[i + 1][1] - data[i][1] > jump_delta for i in range(n - 1)]

        def runs(flags):
            out, i = [], 0
            while i < len(flags):
                if flags[i]:
                    j = i
                    while j < len(flags) and flags[j]:
                        j += 1
                    out.append((i, j))
                    i = j
                else:
                    i += 1
            return out

        s_runs = runs(heavy)
        r_runs = runs(inc)
        for a, b in s_runs:
            inst["storms"][epochs[a]] = (epochs[a], b - a)
        for c, e in r_runs:
            inst["rises"][epochs[c]] = (epochs[c], e - c)
        for a, b in s_runs:
            for c, e in r_runs:
                if max(a, c) < min(b, e):
                    inst["edges"].add((epochs[a], epochs[c]))
                    if b == n:
                        classes.add("matched_storm_reaches_end_of_stretch")
                    if a == 0:
                        classes.add("matched_storm_starts_stretch")
                    if c == 0:
                        classes.add("matched_rise_starts_stretch")
        if heavy and heavy[0]:
            classes.add("stretch_starts_in_heavy_rain")
        if inc and inc[0]:
            classes.add("stretch_starts_in_rising_limb")
        if heavy and all(heavy):
            classes.add("stretch_all_heavy_rain")
        if inc and all(inc):
            classes.add("stretch_all_rising")
        if heavy and heavy[-1]:
            classes.add("stretch_ends_in_heavy_rain")
        if inc and inc[-1]:
            classes.add("stretch_ends_in_rising_limb")
        per_stretch.append({"data_interval": di, "epochs": epochs})
    used_s = {s for s, _ in inst["edges"]}
    used_r = {r for _, r in inst["edges"]}
    full = {"storms": dict(inst["storms"]), "rises": dict(inst["rises"])}
    inst["storms"] = {s: (v[0], v[1]) for s, v in inst["storms"].items() if s in used_s}
    inst["rises"] = {r: (v[0], v[1]) for r, v in inst["rises"].items() if r in used_r}
    # durations are in steps; starts must be in steps too for the rise's preference
    # (|start offset| in seconds and in steps order identically: dt is constant)
    return inst, dt, sorted(classes), per_stretch, full


def read_recorded(db_path):
    con = sqlseam.plain_connect(db_path)
    try:
        storms = con.execute("SELECT start_epoch, thru_epoch FROM storm ORDER BY start_epoch").fetchall()
        rises = con.execute(
            "SELECT start_epoch, thru_epoch FROM zeta_interval WHERE interval_type = 'storm' ORDER BY start_epoch").fetchall()
        pairs = con.execute(
            "SELECT interval_start_epoch, storm_start_epoch FROM zeta_interval_storm ORDER BY interval_start_epoch").fetchall()
    finally:
        con.close()
    return storms, rises, pairs


def judge_recorded(inst, dt, db_path):
    """C01-b and C02 on the tables a finished classify left behind."""
    found = []
    storms, rises, pairs = read_recorded(db_path)
    storm_thru = dict(storms)
    rise_thru = dict(rises)
    seen_r, seen_s = set(), set()
    matching = {}
    for r, s in pairs:
        if r in seen_r:
            found.append(("C01", "rise-recorded-twice", {"rise": r}))
        if s in seen_s:
            found.append(("C01", "storm-recorded-twice", {"storm": s}))
        seen_r.add(r)
        seen_s.add(s)
        if s not in storm_thru or r not in rise_thru:
            found.append(("C01", "pair-refers-to-missing-interval", {"rise": r, "storm": s}))
            continue
        # storm occupies steps [s, storm_thru); the rise's increments occupy steps [r, rise_thru)
        if not max(s, r) < min(storm_thru[s], rise_thru[r]):
            found.append(("C01", "recorded-pair-does-not-overlap",
                          {"storm": [s, storm_thru[s]], "rise": [r, rise_thru[r]]}))
        matching[r] = s
    if len(storms) != len(pairs) or len(rises) != len(pairs):
        found.append(("C01", "interval-tables-disagree-with-pairing",
                      {"storms": len(storms), "rises": len(rises), "pairs": len(pairs)}))
    if found:
        return found, matching, "malformed"
    # map onto the independently recomputed relation
    for r, s in matching.items():
        ok_s = s in inst["storms"] and storm_thru[s] == s + inst["storms"][s][1] * dt
        ok_r = r in inst["rises"] and rise_thru[r] == r + inst["rises"][r][1] * dt
        if not (ok_s and ok_r and (s, r) in inst["edges"]):
            found.append(("C02", "recorded-interval-not-a-maximal-overlapping-run",
                          {"storm": [s, storm_thru.get(s)], "rise": [r, rise_thru.get(r)]}))
    if found:
        return found, matching, "unrecognised"
    found.extend(judge_matching(inst, matching))
    state = "n/a"
    if not found:
        opt_found, state = judge_optimal(inst, matching)
        found.extend(opt_found)
    return found, matching, state


def format_threshold(value, style):
    """The same positive finite number written the ways a user might type it."""
    value = float(value)
    if style == "int" and value == int(value) and abs(value) < 1e15:
        return str(int(value))
    if style == "plus":
        return "+" + repr(value)
    if style == "g":
        # only when twelve digits denote this very number (0.3 * 1.5 is 0.44999999999999996, not 0.45)
        return "%.12g" % value if float("%.12g" % value) == value else repr(value)
    if style == "dot" and value == int(value) and abs(value) < 1e15:
        return "%d." % int(value)
    if style == "exp":
        return "%.6e" % value if float("%.6e" % value) == value else repr(value)
    return repr(value)


THRESHOLD_STYLES = ("repr", "repr", "repr", "int", "plus", "g", "dot", "exp")


def thresholds_for(rng, spec):
    if spec["kind"] == "field":
        s = rng.choice([0.5, 1.0, 2.0, 3.0, 4.0, 4.0, 6.0, 8.0, 8.0, 10.0, 12.0])
        j = rng.choice([0.5, 1.0, 2.0, 3.0, 5.0, 5.0, 8.0, 8.0, 10.0, 12.0])
        return s, j
    s0, j0 = spec["s0"], spec["j0"]
    s = rng.choice([s0, s0, s0, s0 * 0.5, s0 * 0.25, s0 * 1.5, s0 * 2, round(s0 * rng.uniform(0.2, 2.5), 3)])
    j = rng.choice([j0, j0, j0, j0 * 0.5, j0 * 0.25, j0 * 1.5, j0 * 2, round(j0 * rng.uniform(0.2, 2.5), 3)])
    # "all threshold pairs > 0": occasionally an extreme one (nothing is a storm / every wet step is)
    if rng.random() < 0.06:
        s = rng.choice([1e-6, 1e6, 0.01])
    if rng.random() < 0.06:
        j = rng.choice([1e-6, 1e6, 0.01])
    return s, j


_LOADED_FIELD = {}


def load_dataset(spec, directory):
    """`spowtd load` (fault free) into directory/loaded.sqlite; returns Outcome."""
    db = os.path.join(directory, "loaded.sqlite")
    if os.path.exists(db):
        os.remove(db)
    argv = [a.replace("{db}", db) for a in workload.load_argv(spec, directory)]
    sqlseam.set_plan(None)
    return db, cli.run(argv)


def run_data_case(spec, thresholds, schedules, directory, loaded_db=None):
    """Load once, classify once per schedule.  Returns (violations, stats, distinct, info)."""
    stats = collections.Counter()
    violations, distinct = [], []
    classify_module()
    if loaded_db is None:
        loaded_db, out = load_dataset(spec, directory)
        if not out.ok:
            stats["load_refused"] += 1
            return violations, stats, distinct, {"load": out.as_dict()}
    s_thr, j_thr = thresholds
    inst, dt, classes, per_stretch, _full = read_relation(loaded_db, s_thr, j_thr)
    if spec.get("kind") == "synthetic":
        # degenerate stretches are a property of the SOURCE files: a tree whose load invents a
        # one-sample stretch must not be excused by the known finding about one-sample stretches
        stored = [c for c in classes if c in ("one_sample_stretch", "zero_sample_stretch")]
        source = workload.spec_degenerate_classes(spec)
        if sorted(stored) != source:
            stats["diag_stretch_structure_differs_from_source"] += 1
        classes = sorted((set(classes) - {"one_sample_stretch", "zero_sample_stretch"}) | set(source))
        # likewise for "a matched storm reaches the end of a stretch"
        f4 = "matched_storm_reaches_end_of_stretch"
        in_source = workload.spec_storm_at_stretch_end(spec, s_thr, j_thr)
        if (f4 in classes) != in_source:
            stats["diag_stretch_end_storm_differs_from_source"] += 1
        classes = sorted((set(classes) - {f4}) | ({f4} if in_source else set()))
    tie_free = not refmodel.has_ties(inst, 0)
    stats["data_cases"] += 1
    stats["data_edges"] += len(inst["edges"])
    contention = len(inst["edges"]) > max(len(inst["storms"]), len(inst["rises"])) or \
        any(len([e for e in inst["edges"] if e[0] == s]) > 1 for s in inst["storms"])
    if contention:
        stats["data_cases_with_contention"] += 1
    for c in classes:
        stats["class_" + c] += 1
    results = []
    base_replay = {"level": "data", "dataset": spec, "thresholds": [s_thr, j_thr]}
    global _OBSERVED_CALLS
    for sch in schedules:
        db = os.path.join(directory, "subject.sqlite")
        shutil.copyfile(loaded_db, db)
        ctx = with_schedule(sch)
        _OBSERVED_CALLS = []
        sqlseam.set_plan(None)
        try:
            style = THRESHOLD_STYLES[sch.seed % len(THRESHOLD_STYLES)]
            verbosity = (sch.seed // 8) % 5          # none, -v, -vv, -vvv (DEBUG), -vvvv
            out = cli.run(["classify", db, "-s", format_threshold(s_thr, style), "-j", format_threshold(j_thr, style)]
                          + (["-" + "v" * verbosity] if verbosity else []))
        finally:
            without_schedule()
            observed, _OBSERVED_CALLS = _OBSERVED_CALLS, None
        stats["executions"] += 1
        stats["pops"] += ctx.pops
        stats["requeues"] += ctx.requeues
        for k, v in ctx.diag.items():
            stats["diag_" + k] += v
        if ctx.requeues:
            distinct.append("d:%s:%s:%s" % (runner.digest(spec)[:10], runner.digest([s_thr, j_thr])[:6],
                                          runner.digest(ctx.schedule.choices)[:8]))
        found = []
        if ctx.livelock:
            found.append(("C01", "livelock", {"pops": ctx.pops}))
        elif not out.ok:
            found.append(("C01", "exception:%s@%s" % (out.exc_type, out.frame),
                          {"exc": out.as_dict(), "input_classes": classes}))
        else:
            f, matching, state = judge_recorded(inst, dt, db)
            stats["optimal_" + state] += 1
            found.extend(f)
            stats["pairs_recorded"] += len(matching)
            # diagnostic only: candidate relation the code derived vs the recomputed one
            code_edges = set()
            for (rain_iv, jump_iv), st in zip(observed, per_stretch):
                for (a, _b), (c, _d) in zip(rain_iv, jump_iv):
                    if a < len(st["epochs"]) and c < len(st["epochs"]):
                        code_edges.add((st["epochs"][a], st["epochs"][c]))
            if len(observed) == len(per_stretch) and code_edges != inst["edges"]:
                stats["diag_candidate_relation_differs"] += 1
            results.append((sch, matching))
        for prop, cls, detail in found:
            sig = {"level": "data", "class": cls}
            if cls.startswith("exception:"):
                sig = {"exception": out.exc_type, "frame": out.frame, "input_classes": classes}
            violations.append({
                "property": prop, "class": cls, "detail": detail, "signature": sig,
                "replay": dict(base_replay, property=prop, schedules=[ctx.schedule.as_dict()],
                               violation={"class": cls}),
            })
    if tie_free and len(results) > 1:
        first = results[0][1]
        for sch, m in results[1:]:
            if m != first:
                violations.append({
                    "property": "C02", "class": "order-dependent",
                    "signature": {"level": "data", "class": "order-dependent"},
                    "detail": {"a": len(first), "b": len(m)},
                    "replay": dict(base_replay, property="C02", schedules=[results[0][0].as_dict(), sch.as_dict()],
                                   violation={"class": "order-dependent"}),
                })
                break
    stats["data_tie_free" if tie_free else "data_with_ties"] += 1
    return violations, stats, distinct, {"classes": classes, "edges": len(inst["edges"])}


def data_job(job):
    seed, count, n_sched = job["seed"], job["count"], job["n_sched"]
    stats = collections.Counter()
    violations, distinct, samples = [], [], []
    with runner.RunDir() as directory:
        for i in range(count):
            s = runner.derive_seed(seed, "data", i)
            rng = random.Random(s)
            if job.get("field"):
                spec = {"kind": "field", "sample": job["field"]}
            else:
                spec = workload.gen_spec(rng, size=rng.choice(["s", "s", "m"]))
            loaded_db, out = load_dataset(spec, directory)
            if not out.ok:
                stats["load_refused"] += 1
                continue
            for t in range(job.get("threshold_pairs", 1)):
                thresholds = thresholds_for(rng, spec)
                schedules = [Schedule(POLICIES[(k + 2) % len(POLICIES)], runner.derive_seed(s, "sched", t, k))
                             for k in range(n_sched)]
                v, st, di, info = run_data_case(spec, thresholds, schedules, directory, loaded_db)
                stats.update(st)
                distinct.extend(di)
                for x in v:
                    x["replay"]["seed"] = s
                violations.extend(v)
                if job.get("want_samples") and len(samples) < 2:
                    samples.append({"level": "data", "seed": s, "dataset": workload.describe(spec),
                                    "thresholds": list(thresholds), "input_classes": info.get("classes"),
                                    "schedule": schedules[0].as_dict()["policy"]})
    kept, seen = [], collections.Counter()
    for x in violations:
        key = (x["property"], x["class"], json.dumps(x["signature"], sort_keys=True))
        seen[key] += 1
        if seen[key] <= 2:
            kept.append(x)
    stats["violations_total"] = len(violations)
    # count every violation for known-finding bookkeeping without shipping replays
    return {"stats": stats, "violations": kept, "distinct": distinct, "samples": samples}


# ---------------------------------------------------------------------------
# series level: the real match_storms on in-memory series (no SQLite)
# ---------------------------------------------------------------------------

def series_relation(rain, head, s_thr, jump_delta):
    """Reference relation for one gap-free stretch given as plain lists."""
    n = len(rain)
    heavy = [r > s_thr for r in rain]
    inc = [head[i + 1] - head[i] > jump_delta for i in range(n - 1)]

    def runs(flags):
        out, i = [], 0
        while i < len(flags):
            if flags[i]:
                j = i
                while j < len(flags) and flags[j]:
                    j += 1
                out.append((i, j))
                i = j
            else:
                i += 1
        return out

    s_runs, r_runs = runs(heavy), runs(inc)
    inst = {"storms": {}, "rises": {}, "edges": set()}
    classes = set()
    for a, b in s_runs:
        for c, e in r_runs:
            if max(a, c) < min(b, e):
                inst["storms"][a] = (a, b - a)
                inst["rises"][c] = (c, e - c)
                inst["edges"].add((a, c))
                if b == n:
                    classes.add("matched_storm_reaches_end_of_stretch")
    return inst, sorted(classes)


def run_series_case(rain, head, s_thr, jump_delta, schedules):
    import numpy as np  # pylint: disable=import-outside-toplevel
    mod = classify_module()
    inst, classes = series_relation(rain, head, s_thr, jump_delta)
    tie_free = not refmodel.has_ties(inst, 0)
    stats = collections.Counter()
    violations, distinct, results = [], [], []
    base_replay = {"level": "series", "rain": list(rain), "head": list(head), "s_thr": s_thr, "jump_delta": jump_delta}
    for sch in schedules:
        ctx = with_schedule(sch)
        set_log_level(sch.seed)
        info = None
        out = None
        try:
            try:
                out = mod.match_storms(np.array(rain, dtype=float), np.array(head, dtype=float), s_thr, jump_delta)
            except BaseException as exc:  # pylint: disable=broad-except
                if isinstance(exc, (KeyboardInterrupt, SystemExit)):
                    raise
                frames = cli._spowtd_frames(exc.__traceback__)  # pylint: disable=protected-access
                info = {"exc_type": type(exc).__name__, "exc_msg": str(exc)[:200],
                        "frame": frames[-1] if frames else "outside"}
        finally:
            without_schedule()
        stats["executions"] += 1
        stats["series_executions"] += 1
        stats["pops"] += ctx.pops
        stats["requeues"] += ctx.requeues
        if ctx.requeues:
            distinct.append("s:%s:%s" % (runner.digest([rain, head, s_thr, jump_delta])[:12],
                                         runner.digest(ctx.schedule.choices)[:8]))
        found = []
        sig_extra = None
        if ctx.livelock:
            found.append(("C01", "livelock", {"pops": ctx.pops}))
        elif info is not None:
            found.append(("C01", "exception:%s@%s" % (info["exc_type"], info["frame"]),
                          {"exc": info, "input_classes": classes}))
            sig_extra = {"exception": info["exc_type"], "frame": info["frame"], "input_classes": classes}
        else:
            rain_iv, head_iv = out
            matching = {}
            seen_s = set()
            for (a, b), (c, d) in zip(rain_iv, head_iv):
                a, b, c, d = int(a), int(b), int(c), int(d)
                if c in matching or a in seen_s:
                    found.append(("C01", "interval-returned-twice", {"storm": a, "rise": c}))
                seen_s.add(a)
                matching[c] = a
                # storm steps [a, b); rise increments are steps [c, d - 1)
                if not max(a, c) < min(b, d - 1):
                    found.append(("C01", "returned-pair-does-not-overlap", {"storm": [a, b], "rise": [c, d]}))
                ok = (a in inst["storms"] and b == a + inst["storms"][a][1] and c in inst["rises"]
                      and d == c + inst["rises"][c][1] + 1 and (a, c) in inst["edges"])
                if not ok and not found:
                    found.append(("C02", "returned-interval-not-a-maximal-overlapping-run",
                                  {"storm": [a, b], "rise": [c, d]}))
            if len(rain_iv) != len(head_iv):
                found.append(("C01", "result-lists-differ-in-length", {}))
            if not found:
                found.extend(judge_matching(inst, matching))
                if not found:
                    opt_found, state = judge_optimal(inst, matching)
                    stats["optimal_" + state] += 1
                    found.extend(opt_found)
                results.append((sch, matching))
        for prop, cls, detail in found:
            sig = sig_extra if (sig_extra and cls.startswith("exception:")) else {"level": "series", "class": cls}
            violations.append({"property": prop, "class": cls, "detail": detail, "signature": sig,
                               "replay": dict(base_replay, property=prop, schedules=[ctx.schedule.as_dict()],
                                              violation={"class": cls})})
    if tie_free and len(results) > 1:
        first = results[0][1]
        for sch, m in results[1:]:
            if m != first:
                violations.append({"property": "C02", "class": "order-dependent",
                                   "signature": {"level": "series", "class": "order-dependent"},
                                   "detail": {"a": sorted(first.items()), "b": sorted(m.items())},
                                   "replay": dict(base_replay, property="C02",
                                                  schedules=[results[0][0].as_dict(), sch.as_dict()],
                                                  violation={"class": "order-dependent"})})
                break
    stats["series_cases"] += 1
    if len(inst["edges"]) > len(inst["storms"]) or len(inst["edges"]) > len(inst["rises"]):
        stats["series_cases_with_contention"] += 1
    return violations, stats, distinct


def gen_series(rng):
    """One gap-free stretch: heavy-rain and rising-limb run patterns drawn
    independently (so overlaps chain), values around the thresholds."""
    s_thr = rng.choice([2.0, 4.0, 8.0])
    jd = rng.choice([0.5, 1.0, 2.5, 4.0])
    n = rng.randint(2, 60)
    lull = rng.choice([(1, 2), (1, 4), (2, 6)])
    heavy = workload._runs(rng, n, 1, rng.choice([2, 4, 6]), lull[0], lull[1], rng.random() < 0.3)  # pylint: disable=protected-access
    rising = workload._runs(rng, n, 1, rng.choice([2, 4, 6]), lull[0], lull[1], rng.random() < 0.3)  # pylint: disable=protected-access
    if rng.random() < 0.9:
        heavy[-1] = False      # a storm touching the end of the stretch is a separate (known) input class
    rain = [round(s_thr * rng.uniform(1.01, 3), 3) if h else rng.choice([0.0, round(s_thr * rng.uniform(0, 1), 3), s_thr])
            for h in heavy]
    head = [round(rng.uniform(-300, 0), 3)]
    for i in range(n - 1):
        d = jd * rng.uniform(1.01, 4) if rising[i] else jd * rng.choice([rng.uniform(-1, 0.99), 1.0])
        head.append(round(head[-1] + d, 3))
    return rain, head, s_thr, jd


def small_series(limit):
    """Every heavy-rain x rising-limb pattern of a stretch of 2..limit samples
    (a complete enumeration of small shapes: begins / ends / all in rain or in
    a rising limb, every way two or three runs can interleave)."""
    for n in range(2, limit + 1):
        for hbits in range(1 << n):
            heavy = [(hbits >> i) & 1 for i in range(n)]
            for rbits in range(1 << (n - 1)):
                rising = [(rbits >> i) & 1 for i in range(n - 1)]
                rain = [8.0 if h else 2.0 for h in heavy]
                head = [-100.0]
                for r in rising:
                    head.append(head[-1] + (2.0 if r else 0.5))
                yield rain, head, 4.0, 1.0


def series_small_job(job):
    stats = collections.Counter()
    violations, distinct = [], []
    for idx, (rain, head, s_thr, jd) in enumerate(small_series(job["limit"])):
        if idx % job["of"] != job["part"]:
            continue
        schedules = [Schedule(pol, runner.derive_seed(job["seed"], idx, pol)) for pol in ("fifo", "lifo", "random")]
        v, st, di = run_series_case(rain, head, s_thr, jd, schedules)
        stats.update(st)
        stats["small_patterns_enumerated"] += 1
        distinct.extend(di)
        violations.extend(v)
    kept, seen = [], collections.Counter()
    for x in violations:
        key = (x["property"], x["class"])
        seen[key] += 1
        if seen[key] <= 2:
            kept.append(x)
    return {"stats": stats, "violations": kept, "distinct": distinct, "samples": []}


def gen_long_series(rng):
    """A single gap-free stretch far longer than any field record (tens of
    thousands of samples), with hundreds of storms and rises, some of them long,
    placed all along it -- index arithmetic and dtypes at scale."""
    n = rng.choice([40000, 70000])
    s_thr, jd = 4.0, 1.0
    spells = rng.randint(1, 3)
    rain = [0.0] * n
    inc = [-0.01] * (n - 1)
    pos = rng.randint(5, 50)
    events = 0
    while pos < n - 400:
        length = rng.choice([1, 2, 3, 5, 8, 40, 150, 300]) if rng.random() < 0.2 else rng.randint(1, 6)
        shift = rng.randint(0, 2)
        rlen = max(1, length + rng.randint(-1, 2))
        for i in range(pos, pos + length):
            rain[i] = round(s_thr * rng.uniform(1.1, 3.0), 3)
        for i in range(pos + shift, min(n - 2, pos + shift + rlen)):
            inc[i] = round(jd * rng.uniform(1.1, 3.0), 3)
        if rng.random() < 0.3:                       # a second burst under the same rise, or a split rise
            q = pos + length + 1
            rain[q] = round(s_thr * 2.0, 3)
            inc[q] = round(jd * 1.5, 3)
        events += 1
        pos += max(length, rlen) + shift + rng.randint(40, 160)
    # a few long wet spells, each over a dozen or more separate short rises
    for _ in range(spells):
        start = rng.randrange(1000, n - 2000)
        length = rng.randint(60, 140)
        for i in range(start, start + length):
            rain[i] = round(s_thr * rng.uniform(1.1, 2.0), 3)
        i = start + rng.randint(0, 2)
        while i < start + length - 2:
            rl = rng.randint(1, 3)
            for q in range(i, min(i + rl, start + length - 1)):
                inc[q] = round(jd * rng.uniform(1.1, 3.0), 3)
            inc[min(i + rl, n - 2)] = -0.01
            i += rl + rng.randint(1, 3)
    head = [-200.0]
    for d in inc:
        head.append(round(head[-1] + d, 3))
    return rain, head, s_thr, jd


def long_series_job(job):
    stats = collections.Counter()
    violations, distinct = [], []
    rng = random.Random(job["seed"])
    rain, head, s_thr, jd = gen_long_series(rng)
    schedules = [Schedule(pol, runner.derive_seed(job["seed"], pol)) for pol in ("fifo", "random")]
    v, st, di = run_series_case(rain, head, s_thr, jd, schedules)
    stats.update(st)
    stats["long_series_cases"] += 1
    stats["long_series_samples"] += len(rain)
    for x in v:
        x["replay"]["seed"] = job["seed"]
    return {"stats": stats, "violations": v[:2], "distinct": di[:50], "samples": []}


def series_job(job):
    seed, count, n_sched = job["seed"], job["count"], job["n_sched"]
    stats = collections.Counter()
    violations, distinct, samples = [], [], []
    for i in range(count):
        s = runner.derive_seed(seed, "series", i)
        rng = random.Random(s)
        rain, head, s_thr, jd = gen_series(rng)
        schedules = [Schedule(POLICIES[k % len(POLICIES)], runner.derive_seed(s, "sched", k)) for k in range(n_sched)]
        v, st, di = run_series_case(rain, head, s_thr, jd, schedules)
        stats.update(st)
        distinct.extend(di)
        for x in v:
            x["replay"]["seed"] = s
        violations.extend(v)
        if job.get("want_samples") and i < 1:
            samples.append({"level": "series", "seed": s, "rain": rain, "head": head, "s_thr": s_thr, "jump_delta": jd})
    kept, seen = [], collections.Counter()
    for x in violations:
        key = (x["property"], x["class"])
        seen[key] += 1
        if seen[key] <= 2:
            kept.append(x)
    for (prop, cls), c in seen.items():
        stats["met_%s_%s" % (prop, cls)] += c
    return {"stats": stats, "violations": kept, "distinct": distinct, "samples": samples}


# ---------------------------------------------------------------------------
# replay
# ---------------------------------------------------------------------------

def replay(rep):
    """Re-execute a replay file; returns the violations found (same format)."""
    schedules = [Schedule(s["policy"], s["seed"], s["choices"]) for s in rep["schedules"]]
    if rep["level"] == "function":
        inst = inst_from_json(rep["instance"])
        edge_order = [tuple(e) for e in rep["edge_order"]]
        v, _st, _di = evaluate_function_case(inst, edge_order, schedules)
        return v
    if rep["level"] == "series":
        v, _st, _di = run_series_case(rep["rain"], rep["head"], rep["s_thr"], rep["jump_delta"], schedules)
        return v
    with runner.RunDir() as directory:
        v, _st, _di, _info = run_data_case(rep["dataset"], rep["thresholds"], schedules, directory)
    return v


# ---------------------------------------------------------------------------
# minimisation
# ---------------------------------------------------------------------------

def minimise(violation, budget=150):
    """Shrink a failing case while the same violation class persists."""
    rep = violation["replay"]
    cls = violation["class"]
    prop = violation["property"]
    if "RecursionError" in cls or "MemoryError" in cls:
        # whether such a failure occurs depends on how deep the caller's own stack is: a case shrunk to
        # the edge of failing here would not fail in a fresh process.  Reported as found.
        return violation

    def still_fails(candidate):
        for v in replay(candidate):
            if v["property"] == prop and v["class"] == cls:
                return v
        return None

    steps = 0
    best = violation
    if rep["level"] == "function":
        changed = True
        while changed and steps < budget:
            changed = False
            edges = list(best["replay"]["edge_order"])
            for e in edges:
                if len(edges) <= 1 or steps >= budget:
                    break
                cand = json.loads(json.dumps(best["replay"]))
                cand["edge_order"] = [x for x in cand["edge_order"] if x != e]
                cand["instance"]["edges"] = [x for x in cand["instance"]["edges"] if x != e]
                used_s = {str(x[0]) for x in cand["instance"]["edges"]}
                used_r = {str(x[1]) for x in cand["instance"]["edges"]}
                cand["instance"]["storms"] = {k: v for k, v in cand["instance"]["storms"].items() if k in used_s}
                cand["instance"]["rises"] = {k: v for k, v in cand["instance"]["rises"].items() if k in used_r}
                steps += 1
                got = still_fails(cand)
                if got is not None:
                    got["replay"]["seed"] = rep.get("seed")
                    got["replay"]["minimised_from"] = rep.get("minimised_from") or {"edges": len(rep["edge_order"])}
                    best = got
                    changed = True
                    break
    elif rep["level"] == "series":
        changed = True
        while changed and steps < budget:
            changed = False
            cur = best["replay"]
            n = len(cur["rain"])
            for lo, hi in ((1, n), (0, n - 1), (n // 2, n), (0, n // 2 + 1)):
                if hi - lo < 2 or (lo, hi) == (0, n) or steps >= budget:
                    continue
                cand = json.loads(json.dumps(cur))
                cand["rain"], cand["head"] = cur["rain"][lo:hi], cur["head"][lo:hi]
                steps += 1
                got = still_fails(cand)
                if got is not None:
                    got["replay"]["seed"] = rep.get("seed")
                    got["replay"]["minimised_from"] = rep.get("minimised_from") or {"samples": len(rep["rain"])}
                    best = got
                    changed = True
                    break
    else:
        spec = rep["dataset"]
        if spec.get("kind") == "synthetic":
            changed = True
            while changed and steps < budget:
                changed = False
                cur = best["replay"]["dataset"]
                candidates = []
                for i in range(len(cur["segments"])):
                    c = json.loads(json.dumps(cur))
                    del c["segments"][i]
                    candidates.append(c)
                for i in range(len(cur["gaps"])):
                    c = json.loads(json.dumps(cur))
                    del c["gaps"][i]
                    candidates.append(c)
                for c in candidates:
                    if steps >= budget:
                        break
                    if len(c["segments"]) < 1:
                        continue
                    cand = json.loads(json.dumps(best["replay"]))
                    cand["dataset"] = c
                    steps += 1
                    try:
                        got = still_fails(cand)
                    except Exception:  # pylint: disable=broad-except
                        got = None
                    if got is not None:
                        got["replay"]["seed"] = rep.get("seed")
                        got["replay"]["minimised_from"] = rep.get("minimised_from") or {
                            "segments": len(spec["segments"]), "gaps": len(spec["gaps"])}
                        best = got
                        changed = True
                        break
    # shortest failing schedule prefix (then FIFO)
    for idx in range(len(best["replay"]["schedules"])):
        choices = best["replay"]["schedules"][idx]["choices"]
        lo = 0
        while lo < len(choices) and steps < budget:
            cand = json.loads(json.dumps(best["replay"]))
            cand["schedules"][idx]["choices"] = choices[:lo]
            steps += 1
            got = still_fails(cand)
            if got is not None:
                got["replay"]["seed"] = rep.get("seed")
                if "minimised_from" in best["replay"]:
                    got["replay"]["minimised_from"] = best["replay"]["minimised_from"]
                # keep exactly the prefix that was supplied
                got["replay"]["schedules"][idx]["choices"] = choices[:lo]
                best = got
                break
            lo += 1
    return best


# ---------------------------------------------------------------------------
# check driver
# ---------------------------------------------------------------------------

RULE = (
    "function level: random bipartite candidate graphs (1-6 storms x 1-6 rises; random, interval-overlap, "
    "tie-free and dense edge sets) fed to the real disambiguate_matching, each under several seeded proposer "
    "schedules (fifo, lifo, random, smallest, largest, starve-one); series level: the real match_storms on in-memory "
    "rain / head series with independently drawn heavy-rain and rising-limb run patterns, plus every heavy x rising "
    "pattern of stretches of 2..6 samples (2..8 in the thorough tier); data level: every record of 4 rain steps "
    "(5 in the thorough tier) over {dry, drizzle, heavy} x {flat, jump} through the real load + classify; spowtd load + classify through "
    "user_interface.main on synthetic records built from contention templates and on the two field datasets "
    "at seeded threshold pairs, several schedules each, pairing tables read back through a fresh connection. "
    "A case is non-trivial when the run re-queued at least one storm (rejection or displacement) or made more "
    "proposals than there are storms; distinct = distinct (candidate-graph digest | dataset+threshold digest, "
    "schedule-choice digest)."
)

ASSUMPTIONS = [
    "the proposer order is the only run-time choice in classification; it is owned through the guarded hook classify._VERIF_WORKLIST",
    "the reference model (checks/refmodel.py) encodes C02's blocking-pair definition verbatim; durations are measured in time steps as the recorded intervals state them",
    "seeded sampling of graphs, datasets, thresholds and schedules: a clean batch is evidence, not proof",
    "C01's input-only crash classes are reported when the workload meets them but are not searched systematically (DESIGN 5.3)",
]

TIERS = {
    # (function jobs, instances per job, schedules) , (synthetic jobs, datasets per job, threshold pairs, schedules), (field threshold pairs, schedules)
    "quick": {"fn": (48, 250, 6), "series": (48, 150, 4), "syn": (64, 6, 2, 4), "field": (7, 3), "small_limit": 6, "long_series": 3, "tiny_n": 4},
    "thorough": {"fn": (640, 1000, 8), "series": (640, 600, 6), "syn": (640, 12, 3, 6), "field": (40, 8), "small_limit": 8, "long_series": 24, "tiny_n": 5},
}


def tiny_records(n):
    """Every record of n rain steps over {dry, drizzle, heavy} x {flat, jump}:
    a complete enumeration of tiny datasets through the real load + classify
    (run detection, mystery-jump flags, interstorm intervals and matching
    together), complementing the series-level enumeration of match_storms."""
    s0, j0, dt = 4.0, 5.0, 3600
    jd0 = j0 * dt / 3600.0
    rain_levels = (0.0, 0.5 * s0, 2.0 * s0)
    dz_levels = (0.3 * jd0, 2.0 * jd0)
    count = (len(rain_levels) ** n) * (len(dz_levels) ** n)
    for idx in range(count):
        k = idx
        rain, dz = [], []
        for _ in range(n):
            k, r = divmod(k, len(rain_levels))
            rain.append(rain_levels[r])
        for _ in range(n):
            k, r = divmod(k, len(dz_levels))
            dz.append(dz_levels[r])
        yield idx, {"kind": "synthetic", "dt": dt, "s0": s0, "j0": j0, "z0": -100.0, "z_base": -150.0,
                    "timezone": "UTC", "t0": "2013-03-01 00:00:00", "wl_per_step": 1,
                    "segments": [{"kind": "tiny", "rain": rain, "dz": dz}], "gaps": [],
                    "wl_skip_head": 0, "wl_skip_tail": 0}


def tiny_job(job):
    stats = collections.Counter()
    violations, distinct = [], []
    with runner.RunDir() as directory:
        for idx, spec in tiny_records(job["n"]):
            if idx % job["of"] != job["part"]:
                continue
            schedules = [Schedule(pol, runner.derive_seed(job["seed"], idx, pol)) for pol in ("fifo", "lifo")]
            v, st, di, _info = run_data_case(spec, (spec["s0"], spec["j0"]), schedules, directory)
            stats.update(st)
            stats["tiny_records_enumerated"] += 1
            distinct.extend(di)
            for x in v:
                x["replay"]["seed"] = job["seed"]
            violations.extend(v)
    kept, seen = [], collections.Counter()
    for x in violations:
        key = (x["property"], x["class"], json.dumps(x["signature"], sort_keys=True))
        seen[key] += 1
        if seen[key] <= 2:
            kept.append(x)
    return {"stats": stats, "violations": kept, "distinct": distinct, "samples": []}


def field_job(job):
    """One (field dataset, threshold pair) case; the loaded file is prepared once per batch."""
    stats = collections.Counter()
    spec = {"kind": "field", "sample": job["sample"]}
    rng = random.Random(job["seed"])
    thresholds = job.get("thresholds") or thresholds_for(rng, spec)
    schedules = [Schedule(POLICIES[(k + 2) % len(POLICIES)], runner.derive_seed(job["seed"], "sched", k))
                 for k in range(job["n_sched"])]
    with runner.RunDir() as directory:
        v, st, di, info = run_data_case(spec, thresholds, schedules, directory, job["loaded_db"])
    stats.update(st)
    stats["field_cases"] += 1
    for x in v:
        x["replay"]["seed"] = job["seed"]
    samples = [{"level": "data", "dataset": "field:%d" % job["sample"], "thresholds": list(thresholds),
                "input_classes": info.get("classes"), "edges": info.get("edges")}]
    kept, seen = [], collections.Counter()
    for x in v:
        key = (x["property"], x["class"])
        seen[key] += 1
        if seen[key] <= 1:
            kept.append(x)
    return {"stats": stats, "violations": kept, "distinct": di, "samples": samples if job.get("want_samples") else []}


def _prepare_field(job):
    directory = job["directory"]
    os.makedirs(directory, exist_ok=True)
    db, out = load_dataset({"kind": "field", "sample": job["sample"]}, directory)
    return {"db": db, "ok": out.ok, "outcome": out.as_dict()}


def check(prop, tier, only=None):
    """Run the C01/C02 engine; report for `prop`.  Returns the exit code."""
    seed = runner.base_seed()
    cfg = TIERS[tier]
    report = runner.Report(prop, tier, "exploration", seed)
    with runner.Scratch() as scratch:
        classify_module()
        jobs = []
        fn_jobs, fn_count, fn_sched = cfg["fn"]
        syn_jobs, syn_count, syn_pairs, syn_sched = cfg["syn"]
        fld_pairs, fld_sched = cfg["field"]
        if prop == "C01":
            # C01's clauses live mostly at data level: shift the mix
            fn_jobs = max(1, fn_jobs // 2)
            syn_jobs = syn_jobs * 3 // 2
        if only in (None, "function"):
            for i in range(fn_jobs):
                jobs.append(("fn", {"seed": runner.derive_seed(seed, prop, "fn", i), "count": fn_count,
                                    "n_sched": fn_sched, "want_samples": i == 0}))
        if only in (None, "series"):
            se_jobs, se_count, se_sched = cfg["series"]
            for i in range(se_jobs):
                jobs.append(("series", {"seed": runner.derive_seed(seed, prop, "series", i), "count": se_count,
                                        "n_sched": se_sched, "want_samples": i == 0}))
        if only in (None, "series"):
            for i in range(cfg["long_series"]):
                jobs.append(("long", {"seed": runner.derive_seed(seed, prop, "long", i)}))
            parts = 16
            for part in range(parts):
                jobs.append(("small", {"seed": runner.derive_seed(seed, prop, "small"), "limit": cfg["small_limit"],
                                       "part": part, "of": parts}))
        if only in (None, "data", "tiny"):
            for part in range(16):
                jobs.append(("tiny", {"seed": runner.derive_seed(seed, prop, "tiny"), "n": cfg["tiny_n"],
                                      "part": part, "of": 16}))
        if only in (None, "data"):
            for i in range(syn_jobs):
                jobs.append(("syn", {"seed": runner.derive_seed(seed, prop, "syn", i), "count": syn_count,
                                     "threshold_pairs": syn_pairs, "n_sched": syn_sched, "want_samples": i < 2}))
        field_dbs = {}
        if only in (None, "data", "field"):
            prep = list(runner.run_jobs(_prepare_field, [
                {"sample": k, "directory": os.path.join(scratch.root, "field%d" % k)} for k in (1, 2)], workers=2))
            for k, p in zip((1, 2), prep):
                if not p["ok"]:
                    raise runner.HarnessError("field dataset %d does not load: %r" % (k, p["outcome"]))
                field_dbs[k] = p["db"]
            # the pairs named in the property text, then two low pairs (many hundreds of storms and rises)
            fixed = [(4.0, 5.0), (8.0, 5.0), (8.0, 0.5), (0.5, 0.5), (1.0, 2.0)]
            for k in (1, 2):
                for i in range(fld_pairs):
                    jobs.append(("field", {"seed": runner.derive_seed(seed, prop, "field", k, i), "sample": k,
                                           "n_sched": fld_sched, "loaded_db": field_dbs[k],
                                           "thresholds": fixed[i] if i < len(fixed) else None,
                                           "want_samples": i < 2}))
        # long jobs first
        order = {"field": 0, "long": 1, "tiny": 2, "syn": 3, "small": 4, "series": 5, "fn": 6}
        jobs.sort(key=lambda j: order[j[0]])
        for result in runner.run_jobs(_dispatch, jobs):
            report.absorb(result)
    if report.stats["diag_stretch_end_storm_differs_from_source"]:
        print("note: %d datasets differ from their source files in whether a matched storm reaches the end of a "
              "stretch (diagnostic)" % report.stats["diag_stretch_end_storm_differs_from_source"])
    if report.stats["diag_stretch_structure_differs_from_source"]:
        print("note: in %d datasets the gap-free stretches stored by load differ from those of the source files "
              "(degenerate stretches); that is outside C01 / C02 as worded (it concerns loading), but known "
              "findings about degenerate stretches are matched against the SOURCE structure, so a crash on "
              "an invented stretch is reported" % report.stats["diag_stretch_structure_differs_from_source"])
    scheduler_reached = report.stats["pops"] > 0
    if report.stats["executions"] and not scheduler_reached:
        # The hook attribute exists (checked at import) but no run went through it: the tree under test
        # no longer keeps its free storms in the hooked worklist.  Results were still judged, but only
        # under the code's own proposer order; say so instead of pretending.
        print("WARNING: the proposer-order hook was never reached; schedules were not varied in this run")
    extra = {
        "logical_steps": {"worklist_pops": report.stats["pops"], "requeues": report.stats["requeues"]},
        "schedules_explored": report.stats["executions"],
        "seeds": {"distinct_case_seeds": report.stats["instances"] + report.stats["series_cases"] + report.stats["data_cases"],
                  "per_hour": int((report.stats["instances"] + report.stats["series_cases"] + report.stats["data_cases"])
                                  / max(1e-9, __import__("time").time() - report.t0) * 3600)},
        "simulated_time": "none: the arbitration loop has no clock; progress is counted in worklist pops",
        "scheduler_reached": scheduler_reached,
        "real_vs_stub": {
            "real": ["spowtd.classify (disambiguate_matching, find_stable_matching, classify_intervals)",
                     "spowtd.user_interface.main, spowtd.load", "SQLite (real files)"],
            "simulator_owned": ["order of proposals (worklist pops)"],
            "stub": ["numpy.alltrue / numpy.NaN aliases (harness-side numpy-2 compatibility)"],
        },
        "fault_kinds": {"proposer_order_policies": sorted(set(POLICIES))},
    }
    return report.finish(RULE, "executions", ASSUMPTIONS, extra, minimise=minimise)


def _dispatch(job):
    kind, payload = job
    if kind == "fn":
        return function_job(payload)
    if kind == "syn":
        return data_job(payload)
    if kind == "series":
        return series_job(payload)
    if kind == "small":
        return series_small_job(payload)
    if kind == "long":
        return long_series_job(payload)
    if kind == "tiny":
        return tiny_job(payload)
    return field_job(payload)


def replay_file(path, prop):
    with open(path, encoding="utf-8") as f:
        rep = json.load(f)
    cls = rep["violation"]["class"]
    found = [v for v in replay(rep) if v["property"] == rep["property"] and v["class"] == cls]
    if found:
        print("VIOLATION property=%s replay=%s" % (rep["property"], path))
        print("  class=%s detail=%s" % (cls, json.dumps(found[0].get("detail", ""), default=str)[:600]))
        return 1
    print("replay of %s did not reproduce class %s" % (path, cls))
    return 0
